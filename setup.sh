#!/bin/sh
# Offline setup: parse every TLA+ module, smoke-run TLC, check the package imports from /repo.
cd "$(dirname "$0")" || exit 2
set -e
cd spec
rm -f *_TTrace_* *.bin; rm -rf states
for m in *.tla; do
  java -cp /opt/veriftools/tla/tla2tools.jar:/opt/veriftools/tla/CommunityModules-deps.jar tla2sany.SANY "$m" > /tmp/verif_sany.$$ 2>&1 || { cat /tmp/verif_sany.$$; rm -f /tmp/verif_sany.$$; echo "SANY failed on $m"; exit 1; }
  if grep -q -E "Fatal errors|\*\*\* Errors|Could not find" /tmp/verif_sany.$$; then cat /tmp/verif_sany.$$; rm -f /tmp/verif_sany.$$; echo "SANY errors in $m"; exit 1; fi
done
rm -f /tmp/verif_sany.$$
cd ..
PYTHONDONTWRITEBYTECODE=1 /venv/bin/python -c "import sys; sys.path.insert(0,'/repo'); import esp_kconfiglib, kconfgen, kconfserver, kconfcheck, esp_menuconfig.model; print('imports ok')"
mkdir -p evidence out
echo "setup ok"

#!/bin/sh
# Runs the repository baseline with the guard OFF and compares with BASELINE.json stable_pass.
OUT=$(mktemp -d)
cd /repo && env -u ESP_IDF_KCONFIG_VERIF /venv/bin/python -m pytest -ra -q -p no:cacheprovider --timeout=900 --continue-on-collection-errors --junitxml=$OUT/j.xml >$OUT/log 2>&1
/venv/bin/python - "$OUT/j.xml" <<'PY'
import json,sys,xml.etree.ElementTree as ET
base=set(json.load(open('/root/.vp/BASELINE.json'))['stable_pass'])
t=ET.parse(sys.argv[1]); ok=set()
for tc in t.iter('testcase'):
    if not any(c.tag in('failure','error','skipped') for c in tc):
        ok.add(tc.get('classname')+'::'+tc.get('name'))
missing=sorted(base-ok)
print("baseline stable_pass=%d passing_now=%d missing=%d"%(len(base),len(ok&base),len(missing)))
for m in missing[:20]: print("  MISSING",m)
sys.exit(1 if missing else 0)
PY
RC=$?
rm -rf $OUT /repo/.pytest_cache
find /repo -name __pycache__ -type d -prune -exec rm -rf {} + 2>/dev/null
exit $RC

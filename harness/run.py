import importlib
import sys

from .common import main_wrapper


def main():
    if len(sys.argv) < 2:
        print("usage: check <Cxx> [--tier quick|thorough] [--seed N] [--replay file]")
        return 2
    pid = sys.argv[1].upper()
    mod = importlib.import_module("harness.checks." + pid.lower())
    return main_wrapper(pid, mod.main)


if __name__ == "__main__":
    sys.exit(main())

"""Abstract Kconfig programs: the JSON form shared by the TLA+ specifications
(spec/KEval.tla) and the renderer that turns them into Kconfig text, plus the
seeded generator of well-formed programs and the literal tables."""
import itertools
import random

NOVAL = "<none>"
Y = ["y"]
N = ["n"]

INT_LITS = ["0", "1", "3", "5", "10", "11", "-1", "-5", "100", "2000000000"]
HEX_LITS = ["0x0", "0x1", "0x1F", "0x20", "0x21", "0xff", "0X1f", "1f", "20", "0x10", "0xFF"]
STR_LITS = ["", "x", "a b", 'q"z', "a\\b", "#c", "zz", "5", "n", "y"]
FLOAT_LITS = ["0.0", "5", "5.0", "1e3", "-0.5", ".5", "2.5", "10.0", "100.5", "1.5", "3.25", "7", "2.5e16", "1e-7"]


# --------------------------------------------------------------------- tables
def tables(extra_strings=()):
    """Numeric meaning of literals, by Python's own int(), not the library's."""
    num10, num16, numc = {}, {}, {}
    ints = set()
    import re

    for s in set(INT_LITS) | set(HEX_LITS) | set(extra_strings):
        if re.fullmatch(r"[-+]?[0-9]+", s) and abs(int(s)) < 2**31:
            num10[s] = int(s)
            numc[s] = int(s)
        if re.fullmatch(r"(0[xX])?[0-9a-fA-F]+", s) and abs(int(s, 16)) < 2**31:
            num16[s] = int(s, 16)
        if re.fullmatch(r"0[xX][0-9a-fA-F]+", s) and int(s, 16) < 2**31:
            numc[s] = int(s, 16)
    ints = set(num10.values()) | set(num16.values()) | {0, 2}
    for n in list(ints):
        num10.setdefault(str(n), n)
        numc.setdefault(str(n), n)
        if n >= 0:
            num16.setdefault(hex(n), n)
            numc.setdefault(hex(n), n)
    import math

    fvals = {}
    for s in set(FLOAT_LITS) | set(extra_strings) | set(num10):
        if re.fullmatch(r"[-+]?([0-9]+\.?[0-9]*|\.[0-9]+)([eE][-+]?[0-9]+)?", s):
            x = float(s)
            if math.isfinite(x):  # floats are compared by rank, so magnitude is not limited by TLC integers
                fvals[s] = x
    for x in list(fvals.values()):
        fvals.setdefault(str(x), x)
    order = sorted(set(fvals.values()))
    frank = {x: i for i, x in enumerate(order)}
    numf = {s: frank[x] for s, x in fvals.items()}
    normf = {s: str(x) for s, x in fvals.items()}
    fcanon = {str(i): str(x) for x, i in frank.items()}
    strings = set(extra_strings) | set(num10) | set(normf.values()) | set(num16) | set(STR_LITS) | {"y", "n", NOVAL, "absent"}
    rank = {s: i for i, s in enumerate(sorted(strings))}
    return {
        "num10": num10,
        "num16": num16,
        "numc": numc,
        "decstr": {str(n): str(n) for n in sorted(ints)},
        "hexstr": {str(n): hex(n) for n in sorted(ints) if n >= 0},
        "rank": rank,
        "numf": numf,
        "normf": normf,
        "fcanon": fcanon,
        "hexpfx": {s: (s if s[:2] in ("0x", "0X") else "0x" + s) for s in num16},
    }


def strings_of(obj, out):
    if isinstance(obj, str):
        out.add(obj)
    elif isinstance(obj, dict):
        for k, v in obj.items():
            strings_of(v, out)
    elif isinstance(obj, (list, tuple)):
        for v in obj:
            strings_of(v, out)
    return out


# ------------------------------------------------------------------ rendering
def q(s):
    return '"' + s.replace("\\", "\\\\").replace('"', '\\"') + '"'


def atom_text(a, as_string=False):
    if a[0] == "s":
        return a[1]
    if a[0] == "m":  # a macro reference, already in its textual form (lexical variants of C04)
        return a[1]
    lit = a[1]
    import re

    if not as_string and re.fullmatch(r"-?[0-9]+|0[xX][0-9a-fA-F]+|-?[0-9]*\.[0-9]+|-?[0-9]+\.[0-9]*", lit):
        return lit
    return q(lit)


MIN_PARENS = [False]  # lexical variant of C04: `!A = B` for !(A = B) (a relation binds tighter than `!`)


def expr_text(e, top=True):
    op = e[0]
    if op in ("y", "n"):
        return op
    if op == "s":
        return e[1]
    if op == "c":
        return q(e[1])
    if op == "!":
        if MIN_PARENS[0] and e[1][0] in ("=", "!=", "<", "<=", ">", ">="):
            return "!" + expr_text(e[1], True)
        return "!" + expr_text(e[1], False)
    if op in ("&&", "||"):
        # minimal parentheses: && binds tighter than ||; a same-operator chain on the left needs none
        def side(x, left):
            if x[0] in ("&&", "||"):
                if (x[0] == "&&" and op == "||") or (x[0] == op and left):
                    return expr_text(x, True)
                return "(" + expr_text(x, True) + ")"
            return expr_text(x, False)

        s = "%s %s %s" % (side(e[1], True), op, side(e[2], False))
        return s if top else "(" + s + ")"
    s = "%s %s %s" % (atom_text(e[1]), op, atom_text(e[2]))
    return s if top else "(" + s + ")"


def is_y(e):
    return e == Y or e == ["y"]


def cond_suffix(c):
    return "" if is_y(c) else " if " + expr_text(c)


def render_entries(entries, ind, out):
    pad = "    " * ind
    for e in entries:
        k = e["k"]
        if k == "config":
            out.append("%s%s %s" % (pad, "menuconfig" if e.get("menuconfig") else "config", e["name"]))
            p = pad + "    "
            if e["prompt"]:
                out.append('%s%s "%s prompt"%s' % (p, e["type"], e["name"], cond_suffix(e["prompt"][0])))
            else:
                out.append("%s%s" % (p, e["type"]))
            if not is_y(e["dep"]):
                out.append("%sdepends on %s" % (p, expr_text(e["dep"])))
            for r in e["ranges"]:
                out.append("%srange %s %s%s" % (p, atom_text(r["lo"]), atom_text(r["hi"]), cond_suffix(r["c"])))
            for d in e["defaults"]:
                if e["type"] == "bool":
                    v = expr_text(d["v"])
                elif e["type"] == "string":
                    v = atom_text(d["v"], as_string=True)
                else:
                    v = atom_text(d["v"])
                out.append("%sdefault %s%s" % (p, v, cond_suffix(d["c"])))
            for s in e["selects"]:
                out.append("%sselect %s%s" % (p, s["t"], cond_suffix(s["c"])))
            for s in e["implies"]:
                out.append("%simply %s%s" % (p, s["t"], cond_suffix(s["c"])))
            for s in e["sets"]:
                out.append("%sset %s=%s%s" % (p, s["t"], atom_text(s["v"], as_string=s.get("str", False)), cond_suffix(s["c"])))
            for s in e["wsets"]:
                out.append("%sset default %s=%s%s" % (p, s["t"], atom_text(s["v"], as_string=s.get("str", False)), cond_suffix(s["c"])))
            if e.get("warning"):
                out.append('%swarning "%s"' % (p, e["warning"]))
            if e.get("help"):
                out.append("%shelp" % p)
                out.append("%s    %s" % (p, e["help"]))
            out.append("")
        elif k == "menu":
            out.append('%smenu "%s"' % (pad, e.get("title", "menu")))
            if not is_y(e["dep"]):
                out.append("%s    depends on %s" % (pad, expr_text(e["dep"])))
            if not is_y(e["visif"]):
                out.append("%s    visible if %s" % (pad, expr_text(e["visif"])))
            out.append("")
            render_entries(e["children"], ind + 1, out)
            out.append("%sendmenu" % pad)
            out.append("")
        elif k == "if":
            out.append("%sif %s" % (pad, expr_text(e["c"])))
            out.append("")
            render_entries(e["children"], ind + 1, out)
            out.append("%sendif" % pad)
            out.append("")
        elif k == "choice":
            name = e["id"] if not e["id"].startswith("<") else ""
            out.append(("%schoice %s" % (pad, name)).rstrip())
            p = pad + "    "
            if e["prompt"]:
                out.append('%sprompt "%s prompt"%s' % (p, e.get("title", "choice"), cond_suffix(e["prompt"][0])))
            if not is_y(e["dep"]):
                out.append("%sdepends on %s" % (p, expr_text(e["dep"])))
            for d in e["defaults"]:
                out.append("%sdefault %s%s" % (p, d["m"], cond_suffix(d["c"])))
            out.append("")
            render_entries(e["children"], ind + 1, out)
            out.append("%sendchoice" % pad)
            out.append("")
        elif k == "comment":
            out.append('%scomment "%s"' % (pad, e.get("title", "comment")))
            if not is_y(e["dep"]):
                out.append("%s    depends on %s" % (pad, expr_text(e["dep"])))
            out.append("")


def render(prog, title="verif"):
    out = ['mainmenu "%s"' % title, ""]
    render_entries(prog, 0, out)
    return "\n".join(out) + "\n"


# ------------------------------------------------------------------ inspection
def walk(entries):
    for e in entries:
        yield e
        if "children" in e:
            yield from walk(e["children"])


def sym_names(prog):
    seen = []
    for e in walk(prog):
        if e["k"] == "config" and e["name"] not in seen:
            seen.append(e["name"])
    return seen


def choice_ids(prog):
    seen = []
    for e in walk(prog):
        if e["k"] == "choice" and e["id"] not in seen:
            seen.append(e["id"])
    return seen


def sym_info(prog):
    """name -> dict(type, choice, has_prompt)"""
    info = {}

    def rec(entries, ch):
        for e in entries:
            if e["k"] == "config":
                i = info.setdefault(e["name"], {"type": e["type"], "choice": ch, "prompt": False})
                i["prompt"] = i["prompt"] or bool(e["prompt"])
            elif e["k"] == "choice":
                rec(e["children"], e["id"])
            elif "children" in e:
                rec(e["children"], ch if e["k"] == "if" else "")

    rec(prog, "")
    return info


def members(prog, cid):
    return [n for n, i in sym_info(prog).items() if i["choice"] == cid]


# ------------------------------------------------------------------ generator
def mk_config(name, typ, prompt=None, dep=None, defaults=(), ranges=(), selects=(), implies=(), sets=(), wsets=()):
    return {
        "k": "config",
        "name": name,
        "type": typ,
        "prompt": [prompt] if prompt is not None else [],
        "dep": dep or Y,
        "defaults": list(defaults),
        "ranges": list(ranges),
        "selects": list(selects),
        "implies": list(implies),
        "sets": list(sets),
        "wsets": list(wsets),
    }


class Gen:
    """Seeded generator of well-formed, acyclic programs.

    Dependency order = creation order: an option's own conditions / values only
    mention options created earlier; select / imply / set / set default only
    target options created later."""

    def __init__(self, rng, n_opts=6, features=None):
        self.rng = rng
        self.n = n_opts
        self.syms = []  # (name, type, is_member)
        self.cnt = 0
        self.chc = 0
        self.pending_rev = []  # reverse props to attach: (kind, src_name, entry)
        self.order = []  # dependency order: ["s", name] / ["ch", id]
        self.f = features or {}

    def fresh(self, prefix):
        self.cnt += 1
        return "%s%d" % (prefix, self.cnt)

    # -- expressions over earlier options
    def atom_cond(self):
        r = self.rng
        if not self.syms:
            return Y
        name, typ, _ = r.choice(self.syms)
        if typ == "bool":
            k = r.random()
            if k < 0.6:
                return ["s", name]
            if k < 0.8:
                return ["!", ["s", name]]
            return [r.choice(["=", "!="]), ["s", name], ["c", r.choice(["y", "n"])]] if False else ["s", name]
        if typ == "int":
            return [r.choice(["=", "!=", "<", "<=", ">", ">="]), ["s", name], ["c", r.choice(["1", "5", "10", "0"])]]
        if typ == "hex":
            return [r.choice(["=", "!=", "<", ">="]), ["s", name], ["c", r.choice(["0x1F", "0x20", "0x0"])]]
        return [r.choice(["=", "!="]), ["s", name], ["c", r.choice(["x", "", "a b"])]]

    def cond(self, p_trivial=0.5):
        r = self.rng
        if r.random() < p_trivial or not self.syms:
            return Y
        k = r.random()
        if k < 0.6:
            return self.atom_cond()
        a, b = self.atom_cond(), self.atom_cond()
        if a == Y or b == Y:
            return a if b == Y else b
        e = [r.choice(["&&", "||"]), a, b]
        if r.random() < 0.3:  # three operands, mixed operators, both nestings
            c = self.atom_cond()
            if c != Y:
                op2 = r.choice(["&&", "||"])
                e = [op2, e, c] if r.random() < 0.6 else [op2, c, e]
        return e

    def later_targets(self):
        return None

    def gen_option(self, in_choice=False):
        r = self.rng
        typ = "bool" if in_choice else r.choice(["bool", "bool", "bool", "int", "int", "hex", "string"])
        name = self.fresh({"bool": "B", "int": "I", "hex": "H", "string": "S"}[typ])
        prompt = self.cond(0.6) if (in_choice or r.random() < 0.8) else None
        dep = self.cond(0.7)
        e = mk_config(name, typ, prompt=prompt, dep=dep)
        if in_choice:
            if prompt is None:
                e["prompt"] = [Y]
            self.syms.append((name, typ, True))
            self.order.append(["s", name])
            return e
        if typ == "bool":
            nd = r.choice([0, 1, 1, 2])
            for i in range(nd):
                v = r.choice([Y, Y, N, self.atom_cond()])
                v = v if v[0] in ("y", "n", "s", "!") else Y
                e["defaults"].append({"v": v, "c": self.cond(0.4) if i < nd - 1 else self.cond(0.7)})
        elif typ in ("int", "hex"):
            lits = ["1", "3", "5", "10", "11", "0"] if typ == "int" else ["0x1", "0x1F", "0x20", "0x21", "0x10"]
            if r.random() < 0.6:
                nr = r.choice([1, 1, 2])
                for i in range(nr):
                    lo, hi = sorted(r.sample(lits, 2), key=lambda s: int(s, 0))
                    e["ranges"].append({"lo": ["c", lo], "hi": ["c", hi], "c": self.cond(0.3) if i < nr - 1 else self.cond(0.6)})
            if r.random() < 0.5:
                e["defaults"].append({"v": ["c", r.choice(lits)], "c": self.cond(0.2)})
            prev = [n for n, t, _ in self.syms if t == typ]
            if prev and r.random() < 0.25:
                e["defaults"].append({"v": ["s", r.choice(prev)], "c": self.cond(0.3)})
            e["defaults"].append({"v": ["c", r.choice(lits)], "c": Y})  # fallback default
        else:
            lits = ["x", "a b", 'q"z', "zz", ""]
            if r.random() < 0.5:
                e["defaults"].append({"v": ["c", r.choice(lits)], "c": self.cond(0.2)})
            prev = [n for n, t, _ in self.syms if t == "string"]
            if prev and r.random() < 0.25:
                e["defaults"].append({"v": ["s", r.choice(prev)], "c": self.cond(0.3)})
            if r.random() < 0.8:
                e["defaults"].append({"v": ["c", r.choice(lits[:4])], "c": Y})
        # reverse properties from earlier non-member bools onto this option
        srcs = [n for n, t, m in self.syms if t == "bool" and not m]
        if srcs:
            if typ == "bool":
                if r.random() < 0.35:
                    self.pending_rev.append(("selects", r.choice(srcs), {"t": name, "c": self.cond(0.6)}))
                if r.random() < 0.35:
                    self.pending_rev.append(("implies", r.choice(srcs), {"t": name, "c": self.cond(0.6)}))
            else:
                lits = {"int": ["1", "5", "10", "100"], "hex": ["0x1", "0x1F", "0xff"], "string": ["x", "forced", "a b"]}[typ]
                if r.random() < 0.3:
                    self.pending_rev.append(("sets", r.choice(srcs), {"t": name, "v": ["c", r.choice(lits)], "c": self.cond(0.6), "str": typ == "string"}))
                if r.random() < 0.3:
                    self.pending_rev.append(("wsets", r.choice(srcs), {"t": name, "v": ["c", r.choice(lits)], "c": self.cond(0.6), "str": typ == "string"}))
        self.syms.append((name, typ, False))
        self.order.append(["s", name])
        return e

    def gen_choice(self):
        r = self.rng
        self.chc += 1
        cid = "CH%d" % self.chc if r.random() < 0.4 else "<choice %d>" % self.chc
        before = list(self.syms)
        ch = {
            "k": "choice",
            "id": cid,
            "title": "ch%d" % self.chc,
            "prompt": [self.cond(0.6)],
            "dep": self.cond(0.7),
            "defaults": [],
            "children": [],
        }
        mem = []
        self.order.append(["ch", cid])
        for _ in range(r.choice([2, 3])):
            self.syms = list(before)  # members' conditions mention options before the choice only
            mem.append(self.gen_option(in_choice=True))
        self.syms = list(before)
        nd = r.choice([0, 1, 2])
        for i in range(nd):
            ch["defaults"].append({"m": r.choice(mem)["name"], "c": self.cond(0.3) if i < nd - 1 else self.cond(0.6)})
        ch["children"] = mem
        self.syms = before + [(m["name"], "bool", True) for m in mem]
        return ch

    def program(self):
        r = self.rng
        items = []
        budget = self.n
        while budget > 0:
            k = r.random()
            if k < 0.2 and budget >= 2:
                c = self.gen_choice()
                budget -= len(c["children"])
                items.append(c)
            else:
                items.append(self.gen_option())
                budget -= 1
        # attach reverse properties to their sources
        by_name = {}
        for e in walk(items):
            if e["k"] == "config":
                by_name[e["name"]] = e
        minfo = {s[0] for s in self.syms if s[2]}
        for kind, src, ent in self.pending_rev:
            if src in minfo:
                continue
            ent = dict(ent)
            by_name[src][kind].append(ent)
        # wrap runs of items into menus / ifs whose conditions mention earlier options only
        return self.wrap(items)

    def wrap(self, items):
        r = self.rng
        out = []
        i = 0
        defined = []
        while i < len(items):
            if r.random() < 0.3 and i > 0 and i + 1 <= len(items):
                j = min(len(items), i + r.choice([1, 2, 3]))
                kids = items[i:j]
                saved = self.syms
                self.syms = [s for s in saved if s[0] in defined and not False]
                if r.random() < 0.5:
                    node = {"k": "menu", "title": "m%d" % i, "dep": self.cond(0.5), "visif": self.cond(0.5), "children": kids}
                else:
                    c = self.cond(0.0)
                    node = {"k": "if", "c": c, "children": kids}
                self.syms = saved
                out.append(node)
                for e in walk(kids):
                    if e["k"] == "config":
                        defined.append(e["name"])
                i = j
            else:
                out.append(items[i])
                for e in walk([items[i]]):
                    if e["k"] == "config":
                        defined.append(e["name"])
                i += 1
        return out


def user_candidates(prog, rng, cap=1500):
    """Per variable (option or choice) the user values to enumerate."""
    info = sym_info(prog)
    vars_ = []
    for n, i in info.items():
        if i["choice"]:
            continue
        t = i["type"]
        if t == "bool":
            c = [NOVAL, "n", "y"]
        elif t == "int":
            c = [NOVAL] + rng.sample(["0", "3", "5", "10", "11", "-1", "100"], 2)
        elif t == "hex":
            c = [NOVAL] + rng.sample(["0x0", "0x1F", "0x20", "1f", "0X1f", "0xff"], 2)
        else:
            c = [NOVAL] + rng.sample(["", "x", 'q"z', "a\\b", "n", "y"], 2)  # "n" / "y": strings that look like bool values
        vars_.append({"n": n, "kind": "sym", "cands": c})
    for cid in choice_ids(prog):
        vars_.append({"n": cid, "kind": "choice", "cands": [NOVAL] + members(prog, cid)})

    def total():
        t = 1
        for v in vars_:
            t *= len(v["cands"])
        return t

    # trim candidates (from the back) until the product fits
    k = len(vars_) - 1
    while total() > cap and k >= 0:
        while len(vars_[k]["cands"]) > 2 and total() > cap:
            vars_[k]["cands"].pop()
        k -= 1
    k = len(vars_) - 1
    while total() > cap and k >= 0:
        vars_[k]["cands"] = vars_[k]["cands"][:1]
        k -= 1
    return vars_


def assignments(vars_):
    """All assignments in mixed-radix order (last variable fastest)."""
    names = [v["n"] for v in vars_]
    for combo in itertools.product(*[v["cands"] for v in vars_]):
        yield dict(zip(names, combo))


def generate(seed, n_programs, n_opts=6):
    out = []
    for i in range(n_programs):
        rng = random.Random("%s/%d" % (seed, i))
        g = Gen(rng, n_opts=rng.choice([3, 4, 5, n_opts]))
        prog = g.program()
        out.append({"prog": prog, "ord": g.order})
    return out


# ------------------------------------------------------------------ lexical variants (C04)
def _and_parts(e):
    return _and_parts(e[1]) + _and_parts(e[2]) if e[0] == "&&" else [e]


def _dep_lines(kw, e, style):
    """`depends on A && B` may be written as two lines (their conjunction, in this order)."""
    if style.get("split_and") and e[0] == "&&":
        return ["%s %s" % (kw, expr_text(x)) for x in _and_parts(e)]
    return ["%s %s" % (kw, expr_text(e))]


ODD_TITLES = [" %s prompt", "%s  two  spaces", "%s if prompt", "%s c# prompt", "%s's \\\"q\\\" prompt"]


def _title(name, style, rng):
    if style.get("odd_text"):
        return rng.choice(ODD_TITLES) % name
    return "%s prompt" % name


def _config_lines(e, style, rng):
    """Property lines of a config entry (without indentation); the type line comes first."""
    first = []
    rest = []
    if e["prompt"] and style.get("two_prompts"):
        # two prompts in one definition: the later one replaces the earlier one, text and condition
        first.append('%s "old %s title" if n' % (e["type"], e["name"]))
        rest.append('prompt "%s"%s' % (_title(e["name"], style, rng), cond_suffix(e["prompt"][0])))
    elif e["prompt"] and not style.get("separate_prompt"):
        first.append('%s "%s"%s' % (e["type"], _title(e["name"], style, rng), cond_suffix(e["prompt"][0])))
    else:
        first.append(e["type"])
        if e["prompt"]:
            rest.append('prompt "%s"%s' % (_title(e["name"], style, rng), cond_suffix(e["prompt"][0])))
    if not is_y(e["dep"]):
        rest.append(_dep_lines("depends on", e["dep"], style))
    rl = []
    for r in e["ranges"]:
        rl.append("range %s %s%s" % (atom_text(r["lo"]), atom_text(r["hi"]), cond_suffix(r["c"])))
    rest.append(rl)  # the first active range wins: ranges keep their relative order
    dl = []
    for d in e["defaults"]:
        if e["type"] == "bool":
            v = expr_text(d["v"])
        elif e["type"] == "string":
            v = atom_text(d["v"], as_string=True)
        else:
            v = atom_text(d["v"])
        dl.append("default %s%s" % (v, cond_suffix(d["c"])))
    rest.append(dl)  # defaults keep their relative order
    rest.append(["select %s%s" % (s["t"], cond_suffix(s["c"])) for s in e["selects"]])  # same-kind properties keep
    rest.append(["imply %s%s" % (s["t"], cond_suffix(s["c"])) for s in e["implies"]])  # their relative order
    sl = []
    for s in e["sets"]:
        sl.append("set %s=%s%s" % (s["t"], atom_text(s["v"], as_string=s.get("str", False)), cond_suffix(s["c"])))
    for s in e["wsets"]:
        sl.append("set default %s=%s%s" % (s["t"], atom_text(s["v"], as_string=s.get("str", False)), cond_suffix(s["c"])))
    rest.append(sl)
    if e.get("warning"):
        rest.append('warning "%s"' % e["warning"])
    if style.get("shuffle"):
        rng.shuffle(rest)
    out = list(first)
    for x in rest:
        out += x if isinstance(x, list) else [x]
    return out


def _emit(out, pad, line, style, rng):
    if style.get("continuation") and (" && " in line or " || " in line) and rng.random() < 0.7:
        k = line.find(" && ") if " && " in line else line.find(" || ")
        out.append(pad + line[: k + 3] + " \\")
        out.append(pad + "        " + line[k + 4 :])
    elif style.get("inline") and rng.random() < 0.6:
        out.append(pad + line + rng.choice(["  # trailing", " #", "\t# say \"hi\"", "    # it's"]))
    else:
        out.append(pad + line)
    if style.get("comments") and rng.random() < 0.3:
        out.append(rng.choice(["", pad + "# a comment", "#another", "    "]))


_NUMLIT = None


def _with_macros(e, rng, defs):
    """A copy of config entry `e` in which some literal values stand as macro references; `defs` receives the
    macro definition lines that must precede the entry.  Names come from a pool of two, so that a later entry
    redefines a macro an earlier one used (each use must see the definition in force at its own line)."""
    import copy
    import re

    e = copy.deepcopy(e)
    typ = e["type"]
    free = ["MAC_A", "MAC_B", "MAC_C", "MAC_D", "MAC_E", "MAC_F"]  # one definition per name in front of one entry
    used = set()

    def ref(lit, as_string):
        if not free:
            return None
        name = free[0]
        op = rng.choice(["=", ":="])
        if not as_string:
            if not re.fullmatch(r"-?[0-9]+|0[xX][0-9a-fA-F]+|-?[0-9]+\.[0-9]+", lit):
                return None
            defs.append("%s %s %s" % (free.pop(0), op, lit))
            return ["m", "$(%s)" % name]
        if not re.fullmatch(r"[A-Za-z0-9_]+", lit):
            return None
        if len(lit) >= 2 and "MAC_S" not in used and rng.random() < 0.5:
            # the whole literal from two macros: the reference text is the same wherever this form is used,
            # only the definitions in force differ
            used.add("MAC_S")
            defs.append("MAC_S %s %s" % (op, lit[:-1]))
            defs.append("MAC_T %s %s" % (op, lit[-1]))
            return ["m", '"$(MAC_S)$(MAC_T)"']
        free.pop(0)
        form = rng.randrange(3)
        if form == 0:  # a quoted macro value, used bare
            defs.append('%s %s "%s"' % (name, op, lit))
            return ["m", "$(%s)" % name]
        if form == 1 or len(lit) < 2:  # a bare word, used inside quotes
            defs.append("%s %s %s" % (name, op, lit))
            return ["m", '"$(%s)"' % name]
        defs.append("%s %s %s" % (name, op, lit[:-1]))  # embedded in a longer literal
        return ["m", '"$(%s)%s"' % (name, lit[-1])]

    for d in e["defaults"]:
        if typ != "bool" and d["v"][0] == "c" and rng.random() < 0.6:
            d["v"] = ref(d["v"][1], typ == "string") or d["v"]
        elif typ == "bool" and d["v"] in (["y"], ["n"]) and rng.random() < 0.4 and free:
            name = free.pop(0)
            defs.append("%s := %s" % (name, d["v"][0]))
            d["v"] = ["s", "$(%s)" % name]
    for r in e["ranges"]:
        for key in ("lo", "hi"):
            if r[key][0] == "c" and rng.random() < 0.5:
                r[key] = ref(r[key][1], False) or r[key]
    return e


def _render_styled(entries, ind, out, style, rng, in_choice=False):
    unit = "\t" if style.get("tabs") else "    "
    pad = unit * ind
    for e in entries:
        k = e["k"]
        if style.get("comments") and rng.random() < 0.3:
            out.append(pad + "# entry comment")
        if k == "config" and style.get("macros") and not in_choice:
            defs = []
            e = _with_macros(e, rng, defs)
            for dl in defs:
                out.append(pad + dl)
            if defs:
                out.append("")
        if k == "config":
            out.append("%s%s %s" % (pad, "menuconfig" if e.get("menuconfig") else "config", e["name"]))
            for ln in _config_lines(e, style, rng):
                _emit(out, pad + unit, ln, style, rng)
            if style.get("help"):
                out.append(pad + unit + "help")
                out.append(pad + unit + unit + "Help for %s." % e["name"])
                if style.get("odd_text"):
                    out.append(pad + unit + unit + "Use C# here, if you must  (two spaces, a # sign, \"quotes\").")
                out.append("")
                out.append(pad + unit + unit + unit + "deeper indented line")
                out.append(pad + unit + unit + "last help line")
            out.append("")
        elif k == "menu":
            out.append('%smenu "%s"' % (pad, e.get("title", "menu")))
            props = []
            if not is_y(e["dep"]):
                props.append(_dep_lines("depends on", e["dep"], style))
            if not is_y(e["visif"]):
                props.append(_dep_lines("visible if", e["visif"], style))
            if style.get("shuffle"):
                rng.shuffle(props)
            for x in props:
                for ln in x:
                    _emit(out, pad + unit, ln, style, rng)
            out.append("")
            _render_styled(e["children"], ind + 1, out, style, rng, in_choice=in_choice)
            out.append("%sendmenu" % pad)
            out.append("")
        elif k == "if":
            out.append("%sif %s" % (pad, expr_text(e["c"])))
            out.append("")
            _render_styled(e["children"], ind + 1, out, style, rng, in_choice=in_choice)
            out.append("%sendif" % pad)
            out.append("")
        elif k == "choice":
            name = e["id"] if not e["id"].startswith("<") else ""
            out.append(("%schoice %s" % (pad, name)).rstrip())
            props = []
            if e["prompt"]:
                props.append('prompt "%s prompt"%s' % (e.get("title", "choice"), cond_suffix(e["prompt"][0])))
            if not is_y(e["dep"]):
                props.append(_dep_lines("depends on", e["dep"], style))
            dl = ["default %s%s" % (d["m"], cond_suffix(d["c"])) for d in e["defaults"]]
            props.append(dl)
            if style.get("shuffle"):
                rng.shuffle(props)
            for x in props:
                for ln in x if isinstance(x, list) else [x]:
                    _emit(out, pad + unit, ln, style, rng)
            if style.get("help"):
                out.append(pad + unit + "help")
                out.append(pad + unit + unit + "Choice help.")
            out.append("")
            _render_styled(e["children"], ind + 1, out, style, rng, in_choice=True)
            out.append("%sendchoice" % pad)
            out.append("")
        elif k == "comment":
            out.append('%scomment "%s"' % (pad, e.get("title", "comment")))
            if not is_y(e["dep"]):
                _emit(out, pad + unit, "depends on %s" % expr_text(e["dep"]), style, rng)
            out.append("")


STYLES = {
    "canonical": {},
    "separate-prompt+shuffle": {"separate_prompt": True, "shuffle": True},
    "comments": {"comments": True},
    "inline-comments": {"inline": True},
    "continuation": {"continuation": True},
    "help": {"help": True},
    "tabs": {"tabs": True},
    "rsource": {"rsource": True},
    "split-and": {"split_and": True, "shuffle": True},
    "min-parens": {"min_parens": True},
    "two-prompts": {"two_prompts": True},
    "odd-text": {"odd_text": True, "help": True},
    "macros": {"macros": True},
    "macros+rsource": {"macros": True, "rsource": True, "comments": True},
    "everything": {"separate_prompt": True, "shuffle": True, "comments": True, "continuation": True, "help": True, "rsource": True},
}


def render_styled(prog, style_name, rng, title="verif"):
    """(main text, {extra file name: text}) of one lexical variant of the program."""
    style = STYLES[style_name]
    MIN_PARENS[0] = bool(style.get("min_parens"))
    try:
        return _render_styled_top(prog, style, rng, title)
    finally:
        MIN_PARENS[0] = False


def _render_styled_top(prog, style, rng, title):
    extra = {}
    main_entries = prog
    out = ['mainmenu "%s"' % title, ""]
    if style.get("rsource") and len(prog) >= 2:
        k = max(1, len(prog) // 2)
        main_entries, moved = prog[:k], prog[k:]
        sub = []
        _render_styled(moved, 0, sub, style, rng)
        extra["Kconfig.sub"] = "\n".join(sub) + "\n"
        _render_styled(main_entries, 0, out, style, rng)
        out.append('rsource "Kconfig.sub"')
        out.append("")
    else:
        _render_styled(main_entries, 0, out, style, rng)
    return "\n".join(out) + "\n", extra

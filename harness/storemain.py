"""Common driver of the store checks: C02 (round trip) and C10 (minimal config)."""
import random

from . import ktree, lattice, storecheck
from .common import MachineryFailure
from .tlc import format_trace


def run_store(run, want, rule, n_gen_quick=60, n_gen_thorough=1200, cap_quick=40, cap_thorough=120):
    tier = run.tier
    n_gen = n_gen_quick if tier == "quick" else n_gen_thorough
    cap = cap_quick if tier == "quick" else cap_thorough
    lat = lattice.prec_lattice(tier)
    if tier == "quick":
        lat = [p for k, p in enumerate(lat) if k % 3 == 0 or p["family"] == "F-regress"]
    items = lat + ktree.generate(run.seed + 1000, n_gen)
    cases, total = [], 0
    for k, it in enumerate(items):
        case, n = storecheck.build_case(run, it, random.Random("%d/s%d" % (run.seed, k)), cap)
        cases.append(case)
        total += n
    # the same with a rename table known and the deprecated-options block written (C02: "the same holds when the
    # file carries the deprecated-options block"): a slice of the programs
    nblock = 0
    if "P-RtBytes" in want:
        for k, it in enumerate(items):
            if k % (7 if tier == "quick" else 2) == 0:
                case, n = storecheck.build_case(run, it, random.Random("%d/b%d" % (run.seed, k)), min(cap, 24), with_block=True)
                cases.append(case)
                total += n
                nblock += case.get("blocks", 0)
        run.cov["configurations_written_with_deprecated_block"] = nblock
    run.add("evaluations", total)
    for case in cases:
        for err in case.get("errors", []):
            stage = "min" if any("min" in w for w in err["where"]) else "roundtrip"
            if stage == "min" and "P-MinReconstructs" not in want:
                continue
            if stage != "min" and "P-RtValues" not in want:
                pass
            run.report(
                "the implementation raised %s while writing/reloading under %s" % (err["exception"], {k: v for k, v in err["assignment"].items() if v != ktree.NOVAL}),
                {"kconfig": case["text"], "assignment": err["assignment"], "exception": err["exception"], "where": err["where"]},
                {"exception", err["exception"].split(":")[0]} | {w.split(" ")[-1] for w in err["where"]},
            )
    bad_cfgs = set()
    design = {}
    bs = 300
    for b in range(0, len(cases), bs):
        batch = cases[b : b + bs]
        res, found = storecheck.run_batch(run, batch, "s%d" % b)
        if res.violated or not res.ok:
            raise MachineryFailure("KStore model run failed: %s\n%s\n%s" % (res.violated, format_trace(res)[:3000], (res.error or res.out[-2000:])[:3000]))
        run.add("states", res.distinct)
        run.add("transitions", res.generated)
        for v in found:
            tag, t, i, a, bb = v[0], v[1], v[2], v[3], v[4]
            if tag.startswith("D-"):
                design[tag] = design.get(tag, 0) + 1
                continue
            if tag not in want:
                continue
            case = batch[t - 1]
            asg = None
            for kk, x in enumerate(ktree.assignments(case["vars"]), start=1):
                if kk == i:
                    asg = x
                    break
            bad_cfgs.add((b + t, i))
            tags = {tag} | classify(case, asg, tag, a, bb)
            what = "%s: expected %s, got %s under %s" % (tag, a, bb, {k: v for k, v in asg.items() if v != ktree.NOVAL})
            run.report(what, {"kconfig": case["text"], "assignment": asg, "clause": tag, "expected": a, "observed": bb}, tags)
    run.cov["traces_validated_against_impl"] = total - len(bad_cfgs)
    run.cov["design_level_counterexamples"] = design
    nontriv = 0
    for case in cases:
        tot = 1
        for v in case["vars"]:
            tot *= len(v["cands"])
        nontriv += tot - 1
    run.cov["distinct_nontrivial"] = nontriv
    run.cov["programs"] = len(cases)
    run.cov["exhaustive"] = True
    run.cov["rule"] = rule + ("; a slice of the programs again with a rename table known (plain and inverted alias of a bool, aliases of the first option of each other type) and the deprecated-options block written" if "P-RtBytes" in want else "")
    run.sample({"kconfig": cases[0]["text"], "variables": cases[0]["vars"], "first_observation": cases[0]["store"][0]})
    run.sample({"kconfig": cases[-1]["text"], "variables": cases[-1]["vars"], "first_observation": cases[-1]["store"][0]})
    return cases


def classify(case, asg, tag, a, b):
    """Mechanism tags for known-finding matching."""
    tags = set()
    if tag in ("P-RtBytes", "R-rerender"):
        # marker-only difference?
        try:
            pa = [(x[0], x[1]) for x in a]
            pb = [(x[0], x[1]) for x in b]
            if pa == pb:
                tags.add("marker-only")
                info = ktree.sym_info(case["prog"])
                diff = [x for x, y in zip(a, b) if x != y]
                if diff and all(x[1] == "" and info[x[0]]["type"] in ("int", "hex", "float") for x in diff):
                    tags.add("empty-numeric-line")
        except Exception:
            pass
    return tags

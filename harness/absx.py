"""Abstraction of real esp_kconfiglib objects into the records of spec/KEval.tla."""
from . import kc

_OPS = {}


def ops():
    core = kc.core
    if not _OPS:
        _OPS.update({core.AND: "&&", core.OR: "||", core.NOT: "!", core.EQUAL: "=", core.UNEQUAL: "!=", core.LESS: "<", core.LESS_EQUAL: "<=", core.GREATER: ">", core.GREATER_EQUAL: ">="})
    return _OPS


def choice_ids(kconf):
    """Choice object -> id ("<choice k>" for unnamed ones, k = ordinal of the choice in the tree)."""
    ids = {}
    for node in kconf.node_iter():
        if isinstance(node.item, kc.core.Choice) and id(node.item) not in ids:
            k = len(ids) + 1
            ids[id(node.item)] = node.item.name or "<choice %d>" % k
    return ids


def expr(e, kconf, defined, cids):
    core = kc.core
    if isinstance(e, tuple):
        op = ops()[e[0]]
        if op == "!":
            return ["!", expr(e[1], kconf, defined, cids)]
        return [op, expr(e[1], kconf, defined, cids), expr(e[2], kconf, defined, cids)]
    if isinstance(e, core.Choice):
        return ["ch", cids.get(id(e), "<choice ?>")]
    if e is kconf.y:
        return ["y"]
    if e is kconf.n:
        return ["n"]
    if e.name in defined:
        return ["s", e.name]
    if e.is_constant or core._looks_like_number(e.name):
        return ["c", e.name]
    return ["s", e.name]


def atom(e, kconf, defined, cids):
    a = expr(e, kconf, defined, cids)
    if a[0] in ("y", "n"):
        return ["c", a[0]]
    return a


def tree_defs(kconf):
    """The finalised tree as the definition records Flatten produces (tree-walk order)."""
    core = kc.core
    defined = {s.name for s in kconf.unique_defined_syms}
    cids = choice_ids(kconf)
    X = lambda e: expr(e, kconf, defined, cids)  # noqa: E731
    A = lambda e: atom(e, kconf, defined, cids)  # noqa: E731
    out = []
    for node in kconf.node_iter():
        it = node.item
        if isinstance(it, core.Symbol):
            typ = kc.TYPE_NAME.get(it.orig_type, "unknown")
            out.append(
                {
                    "kind": "sym",
                    "name": it.name,
                    "type": typ,
                    "dep": X(node.dep),
                    "ch": cids.get(id(it.choice), "") if it.choice is not None else "",
                    "ctx": [X(node.dep)] if node.prompt else [],
                    "prompts": [X(node.prompt[1])] if node.prompt else [],
                    "defaults": [{"v": (X(v) if typ == "bool" else A(v)), "c": X(c)} for v, c in node.defaults],
                    "ranges": [{"lo": A(lo), "hi": A(hi), "c": X(c)} for lo, hi, c in node.ranges],
                    "selects": [{"t": t.name, "c": X(c)} for t, c in node.selects],
                    "implies": [{"t": t.name, "c": X(c)} for t, c in node.implies],
                    "sets": [{"t": t.name, "v": A(v), "c": X(c)} for t, v, c in node.sets],
                    "wsets": [{"t": t.name, "v": A(v), "c": X(c)} for t, v, c in node.weak_sets],
                }
            )
        elif isinstance(it, core.Choice):
            out.append(
                {
                    "kind": "choice",
                    "name": cids[id(it)],
                    "dep": X(node.dep),
                    "prompts": [X(node.prompt[1])] if node.prompt else [],
                    "defaults": [{"m": m.name, "c": X(c)} for m, c in node.defaults],
                }
            )
    return out


def tree_shape(kconf):
    """Entries, order, nesting, kinds, types, prompts and help: what C04 calls the same menu tree."""
    core = kc.core
    cids = choice_ids(kconf)
    out = []

    def depth(n):
        d = 0
        while n.parent is not None:
            d += 1
            n = n.parent
        return d

    for node in kconf.node_iter():
        it = node.item
        if isinstance(it, core.Symbol):
            kind, name, typ = "config", it.name, kc.TYPE_NAME.get(it.orig_type, "unknown")
        elif isinstance(it, core.Choice):
            kind, name, typ = "choice", cids[id(it)], kc.TYPE_NAME.get(it.orig_type, "unknown")
        elif it == core.MENU:
            kind, name, typ = "menu", "", ""
        else:
            kind, name, typ = "comment", "", ""
        vis = core.expr_str(node.visibility) if it == core.MENU else ""
        out.append([kind, name, typ, depth(node), node.prompt[0] if node.prompt else None, core.expr_str(node.prompt[1]) if node.prompt else None, core.expr_str(node.dep), vis, node.help, bool(node.is_menuconfig)])
    return out

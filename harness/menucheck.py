"""Headless menuconfig sessions: the real MenuConfigState plus the application's
own handlers (save, load, typed input) called on a stand-in for the Textual app."""
import os
import types

from . import evalcheck, kc, ktree, storecheck


def app_stub(state):
    from esp_menuconfig.app import MenuConfigApp

    stub = types.SimpleNamespace(state=state, notified=[])
    stub._refresh_menu = lambda *a, **k: None
    stub.notify = lambda *a, **k: stub.notified.append(a)
    stub._do_save = lambda fp: MenuConfigApp._do_save(stub, fp)
    stub.App = MenuConfigApp
    return stub


def start_session(run, text, conf_path, renames=None):
    """The menuconfig() entry point's own steps, without the UI."""
    from esp_menuconfig.model import MenuConfigState

    kconf = kc.build(text, run.scratch, renames=renames)
    old = os.environ.get("KCONFIG_CONFIG")
    os.environ["KCONFIG_CONFIG"] = conf_path
    try:
        state = MenuConfigState(kconf=kconf, conf_filename=conf_path, minconf_filename=conf_path + ".defaults", conf_changed=False)
        changed, _ = state.load_config()
        state.conf_changed = changed
        if not state.shown:
            state.show_all = True
            state.shown = state.shown_nodes(state.cur_menu)
    finally:
        if old is None:
            os.environ.pop("KCONFIG_CONFIG", None)
        else:
            os.environ["KCONFIG_CONFIG"] = old
    kc.reset_report(kconf)
    return state, app_stub(state)


def visible_node(sym):
    for node in sym.nodes:
        if node.prompt and kc.core.expr_value(node.prompt[1]):
            return node
    return None


def ui_set(state, stub, name, val):
    """What the front end does for 'give option `name` the value `val`'."""
    sym = state.kconf.syms[name]
    node = visible_node(sym)
    if node is None:
        return "invisible"
    if sym.orig_type == kc.BOOL:
        b = {"n": 0, "y": 2}[val]
        if b not in sym.assignable:
            return "not-assignable"
        if sym.choice is not None and not state.changeable(node):
            return "not-changeable"
        state.set_val(sym, b)
        return "set"
    if not state.changeable(node):
        return "not-changeable"
    ok, _ = state.check_valid(sym, val)
    if not ok:
        return "rejected"
    stub.App._apply_input(stub, node, val)
    return "set"


def find_menu_node(kconf, prog, abstract_id):
    from . import servercheck

    ids = servercheck.id_map(kconf, prog)
    for node in kconf.node_iter():
        if ids.get(node.id) == abstract_id and not isinstance(node.item, (kc.core.Symbol,)):
            return node
    return None


def do_action(run, state, stub, prog, act, files, paths):
    k = state.kconf
    a = act["a"]
    if a == "set":
        return ui_set(state, stub, act["n"], act["v"])
    if a == "reset":
        state.restore_default(k.syms[act["n"]].nodes[0])
    elif a == "resetch":
        state.restore_default(k.syms[act["m"]].choice.nodes[0])
    elif a == "resetmenu":
        node = find_menu_node(k, prog, act["m"])
        state.restore_defaults_recursive(node)
    elif a == "loadalt":
        stub.App._handle_load_result(stub, paths[act["f"] - 1])
    elif a == "save":
        stub.App.action_save(stub)
    kc.reset_report(k)
    return "done"


def observe(run, state, names, info, lenient=False, aliases=None):
    from esp_menuconfig.idf_headers import idf_sdkconfig_header

    k = state.kconf
    vals = [k.syms[n].str_value for n in names]
    ns = bool(state.needs_save())
    same, diff = False, ["absent"]
    if os.path.exists(state.conf_filename):
        p = os.path.join(run.scratch, "menu_would_write")
        k.write_config(p, header=idf_sdkconfig_header(), save_old=False, write_deprecated=False)
        with open(p, newline="") as f:
            want = f.read()
        os.unlink(p)
        with open(state.conf_filename, newline="") as f:
            have = f.read()
        same = want == have
        if not same and lenient:
            # a hand-edited file that was never saved in this session: same effective entries?
            def eff(text):
                m = {}
                for n, v, d in storecheck.parse_sdkconfig(text, info):
                    if n not in info and aliases and n in aliases:
                        # a deprecated name: the entry it stands for (a save would spell it with the new name)
                        n, inv = aliases[n]
                        if inv and info[n]["type"] == "bool":
                            v = "n" if v == "y" else "y"
                        d = False
                    if n in info:
                        m[n] = (v, d)
                    else:
                        m["?" + n] = (v, d)
                return m

            w_, h_ = eff(want), eff(have)
            # every entry saving would write is there with the same value and marker; extra entries
            # may only be stale lines of options that are currently not written (no unknown names)
            same = all(h_.get(n) == e for n, e in w_.items()) and all(not n.startswith("?") for n in h_)
        if not same:
            w = storecheck.parse_sdkconfig(want, info)
            h = storecheck.parse_sdkconfig(have, info)
            diff = [x for x in w if x not in h][:3] + [x for x in h if x not in w][:3] or ["comments/order only"]
        else:
            diff = []
    else:
        p = os.path.join(run.scratch, "menu_would_write")
        k.write_config(p, save_old=False)
        with open(p, newline="") as f:
            if not storecheck.parse_sdkconfig(f.read(), info):
                same, diff = True, []  # nothing at all to write
        os.unlink(p)
    return {"vals": vals, "needs_save": ns, "file_is_render": same, "file_diff": [str(d) for d in diff]}

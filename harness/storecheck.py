"""Observation side of the store checks (C02, C10): for every configuration of a
program, what the real implementation writes, re-reads and writes again."""
import json
import os
import re

from . import evalcheck, kc, ktree
from .tlc import run_tlc
from .tlaval import parse_value

MARK = "# default:"


def parse_sdkconfig(text, info):
    """[[name, value, marked], ...] for every assignment line outside the
    deprecated block (harness's own reader of the format)."""
    out = []
    marked = False
    in_dep = False
    raws = text.split("\n")
    for k_, raw in enumerate(raws):
        line = raw.rstrip()
        # the title of a menu / comment is written as three lines "#", "# <title>", "#": never a marker
        if 0 < k_ < len(raws) - 1 and raws[k_ - 1].rstrip() == "#" and raws[k_ + 1].rstrip() == "#":
            continue
        if line.strip() == MARK:
            marked = True
            continue
        if line.strip() == "# Deprecated options for backward compatibility":
            in_dep = True
            continue
        if line.strip() == "# End of deprecated options":
            in_dep = False
            continue
        m = evalcheck._UNSET.match(line) or evalcheck._SET.match(line)
        if not m:
            continue
        name = m.group(1)
        typ = info.get(name, {}).get("type", "unknown")
        n, v = evalcheck.parse_config_line(line, typ)
        if not in_dep:
            out.append([n, v, marked])
        marked = False
    return out


def report_quiet(kconf):
    """Names of the diagnostics a load produced (empty list = quiet)."""
    diag = []
    try:
        j = kconf.report._return_json() if hasattr(kconf.report, "_return_json") else None
    except Exception:
        j = None
    if j is None:
        p = os.path.join(os.environ.get("TMPDIR", "/tmp"), "rep_%d.json" % os.getpid())
        kconf.report.output_json(p)
        with open(p) as f:
            j = json.load(f)
        os.unlink(p)
    for area in j.get("areas", []):
        data = area.get("data") or {}
        title = area.get("title", "")
        if title == "Default Value Mismatch":
            for key in ("changed_defaults", "mismatched_promptless", "changed_choices"):
                for rec in data.get(key, []) or []:
                    diag.append("default-mismatch:%s:%s" % (key, rec.get("name", "?")))
        elif title == "Multiple Assignments":
            for key in ("symbols", "choices"):
                for name in data.get(key, {}) or {}:
                    diag.append("multiple-assignment:%s" % name)
    for name, val in kconf.missing_syms:
        diag.append("unknown-symbol:%s" % name)
    return diag


def fresh(run, case):
    k = kc.build(case["text"], run.scratch, renames=case.get("renames"))
    return k


def observe_store(run, kconf, case, names, info, wdep=False, mode=0):
    """mode 0: values are read before anything is written; mode 1: write_config() comes first; mode 2:
    write_min_config() comes first (the writers must not depend on somebody having evaluated the options)."""
    d = run.scratch
    p1, p2, pm = os.path.join(d, "sdk1"), os.path.join(d, "sdk2"), os.path.join(d, "sdkmin")
    for p in (p1, p2, pm):
        if os.path.exists(p):
            os.unlink(p)
    tm_first = None
    if mode == 2:
        kconf.write_min_config(pm, labels=False, normalize_unset=False)
        with open(pm, newline="") as f:
            tm_first = f.read()
        os.unlink(pm)
    if mode == 0:
        vals = [kconf.syms[n].str_value for n in names]
    kconf.write_config(p1, save_old=False, write_deprecated=wdep)
    with open(p1, newline="") as f:
        t1 = f.read()
    if mode != 0:
        vals = [kconf.syms[n].str_value for n in names]
    k2 = fresh(run, case)
    k2.load_config(p1)
    quiet = report_quiet(k2)
    rt_vals = [k2.syms[n].str_value for n in names]
    k2.write_config(p2, save_old=False, write_deprecated=wdep)
    with open(p2, newline="") as f:
        t2 = f.read()
    kc.reset_report(k2)
    # minimal configuration, four variants
    variants = []
    for labels in (False, True):
        for norm in (False, True):
            if tm_first is not None and not labels and not norm:
                tm = tm_first
            else:
                kconf.write_min_config(pm, labels=labels, normalize_unset=norm)
                with open(pm, newline="") as f:
                    tm = f.read()
                os.unlink(pm)
            lines = parse_sdkconfig(tm, info)
            k3 = fresh(run, case)
            kc.write_text(pm, tm)
            k3.load_config(pm)
            mv = [k3.syms[n].str_value for n in names]
            kc.reset_report(k3)
            os.unlink(pm)
            variants.append((lines, mv, tm))
    same = all([ln[:2] for ln in v[0]] == [ln[:2] for ln in variants[0][0]] and v[1] == variants[0][1] for v in variants)
    return {
        "vals": vals,
        "lines": parse_sdkconfig(t1, info),
        "rt_vals": rt_vals,
        "rt_lines": parse_sdkconfig(t2, info),
        "rt_same": t1 == t2,
        "rt_quiet": quiet,
        "min_lines": variants[0][0],
        "min_vals": variants[0][1],
        "min_variants_same": same,
    }, {"t1": t1, "t2": t2, "min": [v[2] for v in variants]}


def rename_text_for(prog):
    """A rename table for the program: a plain and an inverted alias of the first free bool, a plain alias of the
    first int / hex / string option (so that the written file carries a deprecated block)."""
    info = ktree.sym_info(prog)
    lines = []
    seen = set()
    for n, i in info.items():
        t = i["type"]
        if t in seen:
            continue
        seen.add(t)
        lines.append("CONFIG_OLD_%s CONFIG_%s" % (n, n))
        if t == "bool":
            lines.append("CONFIG_OLDINV_%s !CONFIG_%s" % (n, n))
    return "\n".join(lines) + "\n"


def build_case(run, item, rng, cap, with_block=False):
    """with_block: the instance knows a rename table and writes the deprecated-options block."""
    prog, order = item["prog"], item["ord"]
    text = ktree.render(prog)
    info = ktree.sym_info(prog)
    names = ktree.sym_names(prog)
    vars_ = item.get("vars") or ktree.user_candidates(prog, rng, cap)
    # trim to the cap (explicit lattice vars may exceed it)
    vars_ = [dict(v, cands=list(v["cands"])) for v in vars_]

    def total():
        t = 1
        for v in vars_:
            t *= len(v["cands"])
        return t

    k = 0
    while total() > cap and k < len(vars_):
        if len(vars_[k]["cands"]) > 2:
            vars_[k]["cands"].pop()
        else:
            k += 1
    k = 0
    while total() > cap and k < len(vars_):
        vars_[k]["cands"] = vars_[k]["cands"][:1]
        k += 1
    case = {"prog": prog, "ord": order, "vars": vars_, "text": text, "store": []}
    if with_block:
        case["renames"] = rename_text_for(prog)
    kconf = kc.build(text, run.scratch, renames=case.get("renames"))
    n = 0
    all_asgs = list(ktree.assignments(vars_))
    warm = os.path.join(run.scratch, "sdk_warm")
    for asg in all_asgs:
        # a reachable configuration is reached through a history: the instance has just been in (and has fully
        # evaluated and written) another configuration of the same program, seeded choice
        if len(all_asgs) > 1:
            evalcheck.apply_assignment(kconf, info, vars_, rng.choice(all_asgs))
            for s_ in kconf.unique_defined_syms:
                s_.str_value
            kconf.write_config(warm, save_old=False)
            os.unlink(warm)
        evalcheck.apply_assignment(kconf, info, vars_, asg)
        try:
            obs, texts = observe_store(run, kconf, case, names, info, wdep=with_block, mode=n % 3)
            if with_block and "# Deprecated options for backward compatibility" in texts["t1"]:
                case["blocks"] = case.get("blocks", 0) + 1
            obs["err"] = False
        except Exception as e:  # the implementation raised: a violation, reported by the caller
            import traceback

            from .common import reraise_if_harness

            reraise_if_harness(e)
            tb = traceback.extract_tb(e.__traceback__)
            where = ["%s:%d %s" % (os.path.basename(fr.filename), fr.lineno, fr.name) for fr in tb[-4:]]
            obs = {"err": True, "vals": [], "lines": [], "rt_vals": [], "rt_lines": [], "rt_same": True, "rt_quiet": [], "min_lines": [], "min_vals": [], "min_variants_same": True}
            case.setdefault("errors", []).append({"assignment": asg, "exception": "%s: %s" % (type(e).__name__, str(e)[:200]), "where": where})
            kconf = kc.build(text, run.scratch, renames=case.get("renames"))
        case["store"].append(obs)
        n += 1
    kc.reset_report(kconf)
    return case, n


def run_batch(run, cases, tag, workers=16):
    strings = set()
    for c in cases:
        ktree.strings_of(c["prog"], strings)
        ktree.strings_of(c["vars"], strings)
        ktree.strings_of(c["store"], strings)
    tab = ktree.tables(strings)
    path = run.sub("store_%s.json" % tag)
    with open(path, "w") as f:
        json.dump({"tab": tab, "progs": [{k: v for k, v in c.items() if k not in ("text", "errors", "renames", "blocks")} for c in cases]}, f)
    res = run_tlc("MC_Store", "MC_Store.cfg", run, env={"STORE_DATA": path}, workers=workers, timeout=3000, tag=tag)
    os.unlink(path)
    from .tlc import extract_tuples

    found = extract_tuples(res.out, "R-|P-|D-")
    return res, found

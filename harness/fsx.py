"""File-system interposer: records every file-system operation the library
performs and can kill the "process" (raise Crash) instead of any mutating
operation, optionally after tearing the chunk being written.

Nothing in /repo is modified: the names `open` and `os` are rebound in the
namespace of the tapped modules for the duration of a `with tap:` block, and
`shutil.copyfile` is wrapped.
"""
import builtins
import os as real_os
import shutil

real_open = builtins.open
real_copyfile = shutil.copyfile


class Crash(BaseException):
    """The process dies here."""


def split_chunks(s):
    """A write of `s` reaches the file line by line."""
    out = s.splitlines(True)
    return out or ([s] if s else [])


class WriteProxy:
    def __init__(self, f, path, tap):
        self._f, self._path, self._tap = f, path, tap

    def write(self, s):
        for chunk in split_chunks(s):
            torn = self._tap.before("write", path=self._path, data=chunk)
            if torn is not None:
                self._f.write(torn)
                self._f.flush()
                self._f.close()
                raise Crash()
            self._f.write(chunk)
            self._f.flush()
        return len(s)

    def writelines(self, lines):
        for ln in lines:
            self.write(ln)

    def close(self):
        self._tap.log("close", path=self._path)
        return self._f.close()

    def __enter__(self):
        return self

    def __exit__(self, et, ev, tb):
        if et is not None and issubclass(et, Crash):
            try:
                self._f.close()
            except Exception:
                pass
            return False
        self.close()
        return False

    def __getattr__(self, name):
        return getattr(self._f, name)


class OsProxy:
    def __init__(self, tap):
        self._tap = tap

    def __getattr__(self, name):
        return getattr(real_os, name)

    def mkdir(self, path, *a, **kw):
        self._tap.before("mkdir", path=path)
        return real_os.mkdir(path, *a, **kw)

    def makedirs(self, path, *a, **kw):
        self._tap.before("mkdirs", path=path)
        return real_os.makedirs(path, *a, **kw)

    def open(self, path, flags, *a, **kw):
        if flags & (real_os.O_WRONLY | real_os.O_RDWR | real_os.O_CREAT | real_os.O_TRUNC):
            self._tap.before("touch", path=path)
        return real_os.open(path, flags, *a, **kw)

    def replace(self, src, dst, **kw):
        self._tap.before("replace", src=src, dst=dst)
        return real_os.replace(src, dst, **kw)

    def rename(self, src, dst, **kw):
        self._tap.before("replace", src=src, dst=dst)
        return real_os.rename(src, dst, **kw)

    def remove(self, path, **kw):
        self._tap.before("remove", path=path)
        return real_os.remove(path, **kw)

    unlink = remove

    def utime(self, path, *a, **kw):
        self._tap.before("utime", path=path)
        return real_os.utime(path, *a, **kw)


class FsTap:
    """with FsTap([module, ...], crash_at=k, torn=0.5) as tap: ...  ; tap.ops"""

    def __init__(self, modules, crash_at=None, torn=None):
        self.modules = modules
        self.crash_at = crash_at
        self.torn = torn  # None: crash replaces the op; float: fraction of a write chunk that still lands
        self.ops = []
        self.n = 0
        self.crashed = False
        self._saved = []

    # -- recording
    def log(self, op, **kw):
        self.ops.append(dict(op=op, **kw))

    def before(self, op, **kw):
        """Called before a mutating operation. Returns None to proceed, or the
        torn prefix to write before dying (write ops only); raises Crash."""
        idx = self.n
        self.n += 1
        if self.crash_at is not None and idx == self.crash_at:
            self.crashed = True
            if op == "write" and self.torn is not None:
                data = kw["data"]
                k = max(0, min(len(data) - 1, int(len(data) * self.torn)))
                part = data[:k]
                self.ops.append(dict(op="crash", i=idx, instead_of=op, path=kw.get("path"), torn=part, full=data))
                return part
            self.ops.append(dict(op="crash", i=idx, instead_of=op, **{k: v for k, v in kw.items() if k != "data"}))
            raise Crash()
        self.ops.append(dict(op=op, i=idx, **kw))
        return None

    # -- the rebinding
    def _open(self, file, mode="r", *a, **kw):
        if isinstance(file, int):
            return real_open(file, mode, *a, **kw)
        if any(c in mode for c in "wax+"):
            self.before("open_w" if "w" in mode else "open_a", path=file, mode=mode)
            f = real_open(file, mode, *a, **kw)
            if "b" in mode:
                return f
            return WriteProxy(f, file, self)
        try:
            f = real_open(file, mode, *a, **kw)
        except OSError:
            self.log("read", path=file, ok=False)
            raise
        self.log("read", path=file, ok=True)
        return f

    def _copyfile(self, src, dst, **kw):
        if not kw.get("follow_symlinks", True) and real_os.path.islink(src):
            # shutil semantics: the link itself is copied, <dst> becomes a second name for the same file
            self.before("copy_link", src=src, dst=dst)
            try:
                return real_copyfile(src, dst, **kw)
            except OSError:
                self.ops[-1]["failed"] = True  # e.g. the name exists already: nothing happened
                raise
        self.before("copy_open", src=src, dst=dst)
        with real_open(src, "r", newline="") as s:
            data = s.read()
        with real_open(dst, "w", newline="") as d:
            for chunk in split_chunks(data):
                torn = self.before("copy_write", path=dst, data=chunk)
                if torn is not None:
                    d.write(torn)
                    d.flush()
                    raise Crash()
                d.write(chunk)
                d.flush()
        return dst

    def __enter__(self):
        proxy = OsProxy(self)
        for m in self.modules:
            self._saved.append((m, m.__dict__.get("open", None), m.__dict__.get("os", None)))
            m.open = self._open
            if "os" in m.__dict__:
                m.os = proxy
        shutil.copyfile = self._copyfile
        return self

    def __exit__(self, et, ev, tb):
        for m, o, osm in self._saved:
            if o is None:
                try:
                    del m.open
                except AttributeError:
                    pass
            else:
                m.open = o
            if osm is not None:
                m.os = osm
        self._saved = []
        shutil.copyfile = real_copyfile
        return False

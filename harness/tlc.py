"""Run TLC / SANY and parse what they print."""
import os
import re
import shutil
import subprocess
import time

from .common import VERIF, MachineryFailure

SPEC_DIR = os.path.join(VERIF, "spec")
JAR = "/opt/veriftools/tla/tla2tools.jar:/opt/veriftools/tla/CommunityModules-deps.jar"


class TlcResult:
    def __init__(self):
        self.out = ""
        self.rc = None
        self.generated = 0
        self.distinct = 0
        self.depth = 0
        self.violated = None  # name of violated invariant/property
        self.error = None  # other error text
        self.coverage = {}  # action name -> (distinct, total)
        self.trace = []  # list of (action label, state text)
        self.printed = []  # PrintT lines
        self.wall = 0.0
        self.ok = False


_STATE_HDR = re.compile(r"^State (\d+): <(.*?)>\s*$")


def parse_output(out, res):
    m = None
    for m in re.finditer(r"(\d+) states generated, (\d+) distinct states found", out):
        pass
    if m:
        res.generated, res.distinct = int(m.group(1)), int(m.group(2))
    m = re.search(r"The depth of the complete state graph search is (\d+)", out)
    if m:
        res.depth = int(m.group(1))
    m = re.search(r"Error: Invariant (\S+) is violated", out)
    if m:
        res.violated = m.group(1)
    m2 = re.search(r"Error: Action property (\S+) is violated", out)
    if m2:
        res.violated = m2.group(1)
    if "Error: Temporal properties were violated" in out:
        res.violated = res.violated or "temporal"
    if re.search(r"Error: The postcondition", out) or "postcondition" in out.lower() and "false" in out.lower() and "Error" in out:
        res.violated = res.violated or "POSTCONDITION"
    if res.violated is None:
        m = re.search(r"^Error: (.*)$", out, re.M)
        if m:
            res.error = out[m.start() : m.start() + 1500]
    # coverage lines:  <Name line 12, col 1 to line 20, col 30 of module M>: 12:340
    for m in re.finditer(r"^<(\w+) line \d+, col \d+ to line \d+, col \d+ of module (\w+)>: (\d+):(\d+)", out, re.M):
        name = m.group(1)
        d, t = int(m.group(3)), int(m.group(4))
        od, ot = res.coverage.get(name, (0, 0))
        res.coverage[name] = (max(od, d), max(ot, t))
    # a violation by an initial state is printed without a "State n:" header
    m0 = re.search(r"is violated by the initial state:\n((?:/\\ .*\n(?:  .*\n)*)+)", out)
    if m0:
        res.trace.append(["Initial predicate", m0.group(1).rstrip("\n").split("\n")])
    # error trace
    cur = None
    for line in out.splitlines():
        h = _STATE_HDR.match(line)
        if h:
            cur = [h.group(2), []]
            res.trace.append(cur)
        elif cur is not None:
            if line.strip() == "" or line.startswith("Error:") or re.match(r"^\d+ states generated", line):
                cur = None
            else:
                cur[1].append(line)
    res.trace = [(a, "\n".join(b)) for a, b in res.trace]


def run_tlc(module, cfg, run, env=None, workers=16, timeout=1500, coverage=False, simulate=None, depth=None, extra=(), dfs=False, deadlock=False, seed=None, spec_dir=None, tag=None):
    """Run TLC on spec/<module>.tla with spec/<cfg> in a scratch metadir."""
    res = TlcResult()
    if getattr(run, "tier", "") == "thorough":
        timeout *= 4  # thorough tiers batch far more per invocation, and sweeps run several of them side by side
    meta = run.sub("tlc_meta_%s_%d" % (tag or module, int(time.time() * 1000) % 100000000))
    os.makedirs(meta, exist_ok=True)
    sd = spec_dir or SPEC_DIR
    jopts = ["-XX:+UseParallelGC", "-Xmx12g"]
    if dfs:
        jopts.append("-Dtlc2.tool.queue.IStateQueue=StateDeque")
    cmd = ["java"] + jopts + ["-cp", JAR, "tlc2.TLC", "-metadir", meta, "-noGenerateSpecTE", "-workers", str(workers), "-config", cfg]
    if not deadlock:
        cmd.append("-deadlock")  # -deadlock disables deadlock checking
    if coverage:
        cmd += ["-coverage", "1"]
    if simulate:
        cmd += ["-simulate", simulate]
    if depth:
        cmd += ["-depth", str(depth)]
    if seed is not None:
        cmd += ["-seed", str(seed)]
    cmd += list(extra)
    cmd.append(module)
    e = dict(os.environ)
    e.update(env or {})
    t0 = time.time()
    try:
        p = subprocess.run(cmd, cwd=sd, env=e, stdout=subprocess.PIPE, stderr=subprocess.STDOUT, timeout=timeout, text=True)
        res.out, res.rc = p.stdout, p.returncode
    except subprocess.TimeoutExpired as ex:
        res.out = (ex.stdout or b"").decode() if isinstance(ex.stdout, bytes) else (ex.stdout or "")
        res.rc = -9
        res.error = "timeout after %ds" % timeout
        subprocess.run(["pkill", "-f", meta], check=False)
    res.wall = time.time() - t0
    parse_output(res.out, res)
    for line in res.out.splitlines():
        if line.startswith('"') or line.startswith("<<") or line.startswith("[") or line.startswith("{"):
            res.printed.append(line)
    res.ok = res.rc == 0 and res.violated is None and res.error is None
    shutil.rmtree(meta, ignore_errors=True)
    # TLC drops states/ dirs next to the spec when metadir is ignored; clean up
    return res


def require_ok(res, what):
    if res.violated:
        raise MachineryFailure("%s: TLC reports %s violated in the model\n%s" % (what, res.violated, format_trace(res)))
    if not res.ok:
        raise MachineryFailure("%s: TLC failed rc=%s\n%s" % (what, res.rc, (res.error or res.out[-3000:])))


def require_coverage(res, actions, what):
    """Vacuity gate: every named action must have been taken at least once."""
    missing = [a for a in actions if res.coverage.get(a, (0, 0))[1] == 0]
    if missing:
        raise MachineryFailure("%s: vacuous — actions never taken: %s" % (what, ", ".join(missing)))


def sany(module, spec_dir=None):
    p = subprocess.run(["java", "-cp", JAR, "tla2sany.SANY", module + ".tla"], cwd=spec_dir or SPEC_DIR, stdout=subprocess.PIPE, stderr=subprocess.STDOUT, text=True)
    ok = p.returncode == 0 and "Semantic errors" not in p.stdout and "*** Errors" not in p.stdout and "Fatal errors" not in p.stdout and "Could not find module" not in p.stdout
    return ok, p.stdout


def format_trace(res, maxlen=6000):
    """Compact counterexample: per step the action and the variables that changed."""
    from .tlaval import parse_state

    prev = {}
    out = []
    for act, text in res.trace:
        try:
            st = parse_state(text)
        except Exception:
            out.append(act + "\n" + text)
            continue
        diff = {k: v for k, v in st.items() if prev.get(k) != v}
        out.append("%s: %s" % (act.split(" line")[0], diff))
        prev = st
    return "\n".join(out)[:maxlen]


def extract_tuples(out, tag_regex):
    """All printed tuples `<<"TAG...", ...>>` in TLC output, robust to TLC's multi-line
    pretty printing and to interleaved worker output (bracket matching outside strings)."""
    from .tlaval import parse_value

    found = []
    last_end = -1
    for m in re.finditer(r'<<\s*"(?:%s)' % tag_regex, out):
        j = m.start()
        if j < last_end:  # a nested tuple of a verdict already extracted (e.g. an option called "SRC" inside an "S" verdict)
            continue
        depth, k, n = 0, j, len(out)
        instr = False
        while k < n:
            ch = out[k]
            if instr:
                if ch == "\\":
                    k += 2
                    continue
                if ch == '"':
                    instr = False
                k += 1
                continue
            if ch == '"':
                instr = True
                k += 1
                continue
            if out.startswith("<<", k):
                depth += 1
                k += 2
                continue
            if out.startswith(">>", k):
                depth -= 1
                k += 2
                if depth == 0:
                    break
                continue
            k += 1
        last_end = k
        try:
            found.append(parse_value(out[j:k]))
        except Exception as e:  # a tuple we cannot read must not be dropped silently
            raise MachineryFailure("cannot parse TLC output tuple: %s ... (%s)" % (out[j : j + 200], e))
    return found

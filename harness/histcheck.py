"""Session histories: exploration by TLC (spec/MC_Hist.tla), replay on the real
implementation, validation by TLC (spec/MC_HistCheck.tla)."""
import json
import os
import random
import re

from . import evalcheck, kc, ktree
from .common import MachineryFailure
from .tlc import format_trace, run_tlc
from .tlaval import parse_value


def file_text(lines):
    out = []
    for ln in lines:
        if ln.get("d"):
            out.append("# default:")
        if ln["t"] == "bool" and ln["v"] == "n" and ln.get("notset", True):
            out.append("# CONFIG_%s is not set" % ln["n"])
        elif ln["t"] == "string":
            out.append("CONFIG_%s=%s" % (ln["n"], ktree.q(ln["v"])))
        else:
            out.append("CONFIG_%s=%s" % (ln["n"], ln["v"]))
    return "\n".join(out) + "\n"


def spec_files(files):
    return [[{"n": ln["n"], "v": ln["v"], "d": bool(ln.get("d")), "u": bool(ln["t"] == "bool" and ln["v"] == "n" and ln.get("notset", True))} for ln in f] for f in files]


def explore(run, items, maxlen, tag, invariant="ExactlyOne", max_per_prog=None, workers=1):
    """TLC histories per program: list (per item) of action-index lists."""
    strings = set()
    for it in items:
        ktree.strings_of(it["prog"], strings)
        ktree.strings_of(it["acts"], strings)
        ktree.strings_of(it["files"], strings)
    tab = ktree.tables(strings)
    path = run.sub("hist_%s.json" % tag)
    with open(path, "w") as f:
        json.dump(
            {
                "tab": tab,
                "maxlen": maxlen,
                "progs": [{"prog": it["prog"], "ord": it["ord"], "acts": it["acts"], "files": spec_files(it["files"]), "renames": it.get("renames_tab", {})} for it in items],
            },
            f,
        )
    res = run_tlc("MC_Hist", "MC_Hist.cfg", run, env={"HIST_DATA": path}, workers=workers, timeout=3000, tag=tag)
    os.unlink(path)
    if res.violated or not res.ok:
        raise MachineryFailure("MC_Hist: %s\n%s\n%s" % (res.violated, format_trace(res)[:3000], (res.error or res.out[-1500:])[:2500]))
    hists = [[] for _ in items]
    from .tlc import extract_tuples

    for v in extract_tuples(res.out, 'H"'):
        hists[v[1] - 1].append(v[2])
    return res, hists


def do_action(kconf, act, files, scratch):
    a = act["a"]
    if a == "set":
        kconf.syms[act["n"]].set_value(act["v"])
    elif a == "unset":
        kconf.syms[act["n"]].unset_value()
    elif a == "reset":
        kc.core._restore_default(kconf.syms[act["n"]].nodes[0])
    elif a in ("resetch", "unsetch"):
        ch = kconf.syms[act["m"]].choice
        if a == "resetch":
            kc.core._restore_default(ch.nodes[0])
        else:
            ch.unset_value()
    elif a == "load":
        p = os.path.join(scratch, "load_%d" % act["f"])
        kc.write_text(p, file_text(files[act["f"] - 1]))
        kconf.load_config(p, replace=act["replace"])
        kc.reset_report(kconf)
    elif a == "read":
        kconf.syms[act["n"]].str_value
    elif a == "readall":
        for s in kconf.unique_defined_syms:
            s.str_value


def user_state(kconf):
    """Final user values and picks of the real object (private attributes; None if absent)."""
    try:
        u = {}
        for s in kconf.unique_defined_syms:
            v = s._user_value
            if v is None:
                continue
            u[s.name] = {0: "n", 2: "y"}.get(v, v) if s.orig_type == kc.BOOL else v
        p = {}
        for c in kconf.unique_choices:
            if c._user_selection is not None:
                p[id(c)] = c._user_selection.name
        return u, list(p.values())
    except AttributeError:
        return None


def outputs_agree(run, kconf, prog, cids):
    """For every choice: the members defined in header / CMake / JSON are exactly
    the selected member (or none)."""
    import kconfgen.core as kg

    hv, _ = kc.header_values(kconf, run.scratch)
    p = os.path.join(run.scratch, "cm_%d" % os.getpid())
    kg.write_cmake(kconf, p)
    with open(p) as f:
        cm = dict(re.findall(r'^set\(CONFIG_(\w+) "(.*)"\)$', f.read(), re.M))
    os.unlink(p)
    js = kg.get_json_values(kconf)
    desc = []
    ok = True
    for cid in cids:
        mem = ktree.members(prog, cid)
        ch = kconf.syms[mem[0]].choice
        sel = ch.selection.name if ch.selection is not None else None
        want = {sel} if sel else set()
        h = {m for m in mem if m in hv}
        c = {m for m in mem if cm.get(m, "") != ""}
        j = {m for m in mem if js.get(m) is True}
        if not (h == want and c == want and j == want):
            ok = False
        desc.append([cid, sel or ktree.NOVAL, sorted(h), sorted(c), sorted(j)])
    return ok, desc


def defaults_sig(kconf):
    """The defaults of every option and choice as text: a load rewrites them when it injects a stored value."""
    sig = {}
    for s in kconf.unique_defined_syms:
        sig[s.name] = [(kc.core.expr_str(v), kc.core.expr_str(c)) for v, c in s.defaults]
    for k, c in enumerate(kconf.unique_choices):
        sig["<choice %d>" % k] = [(m.name, kc.core.expr_str(cond)) for m, cond in c.defaults]
    return sig


def replay(run, item, hist, rng, with_fresh=True, with_outputs=False):
    prog = item["prog"]
    info = ktree.sym_info(prog)
    names = ktree.sym_names(prog)
    cids = ktree.choice_ids(prog)
    text = item.get("text") or ktree.render(prog)
    item["text"] = text
    rec = {"h": hist, "err": False, "obs": [], "sel": [], "obs_inv": [], "obs_fresh": [], "obs_again": [], "outs_ok": True, "outs": [], "inj": []}
    try:
        kconf = kc.build(text, run.scratch, renames=item.get("renames"))
        if "_defsig" not in item:
            item["_defsig"] = defaults_sig(kconf)
        for k in hist:
            do_action(kconf, item["acts"][k - 1], item["files"], run.scratch)
        order = list(names)
        rng.shuffle(order)
        first = {}
        for n in order:  # seeded read order
            s = kconf.syms[n]
            first[n] = [s.str_value, s.visibility, evalcheck.asg_text(s), evalcheck.line_of(s, info[n]["type"])[0]]
        rec["obs"] = [first[n] for n in names]
        rec["sel"] = evalcheck.observe_sel(kconf, prog, cids)
        rec["obs_again"] = evalcheck.observe(kconf, list(reversed(names)), info)[::-1]
        sig = defaults_sig(kconf)
        rec["inj"] = sorted(n for n in sig if sig[n] != item["_defsig"].get(n))
        if with_outputs and cids:
            rec["outs_ok"], rec["outs"] = outputs_agree(run, kconf, prog, cids)
        us = user_state(kconf) if with_fresh else None
        inv = getattr(kconf, "_invalidate_all", None)
        if inv is not None:
            inv()
            rec["obs_inv"] = evalcheck.observe(kconf, names, info)
        else:
            rec["obs_inv"] = rec["obs"]
        if us is not None:
            u, picks = us
            k2 = kc.build(text, run.scratch, renames=item.get("renames"))
            for n in sorted(u, reverse=True):
                if info[n]["choice"] and u[n] == "y":
                    continue
                k2.syms[n].set_value(u[n])
            for m in picks:
                k2.syms[m].set_value(2)
            rec["obs_fresh"] = evalcheck.observe(k2, names, info)
            kc.reset_report(k2)
        kc.reset_report(kconf)
    except Exception as e:  # the implementation raised
        import traceback

        from .common import reraise_if_harness

        reraise_if_harness(e)
        tb = traceback.extract_tb(e.__traceback__)
        rec.update(err=True, obs=[], sel=[], obs_inv=[], obs_fresh=[], obs_again=[])
        rec["exception"] = "%s: %s" % (type(e).__name__, str(e)[:200])
        rec["where"] = ["%s:%d %s" % (os.path.basename(fr.filename), fr.lineno, fr.name) for fr in tb[-4:]]
    return rec


def validate(run, items, tag, workers=16):
    strings = set()
    for it in items:
        ktree.strings_of(it["prog"], strings)
        ktree.strings_of(it["acts"], strings)
        ktree.strings_of(it["files"], strings)
        ktree.strings_of([{k: v for k, v in tr.items() if k not in ("exception", "where")} for tr in it["traces"]], strings)
    tab = ktree.tables(strings)
    path = run.sub("histchk_%s.json" % tag)
    with open(path, "w") as f:
        json.dump(
            {
                "tab": tab,
                "progs": [
                    {
                        "prog": it["prog"],
                        "ord": it["ord"],
                        "acts": it["acts"],
                        "files": spec_files(it["files"]),
                        "renames": it.get("renames_tab", {}),
                        "traces": [{k: v for k, v in tr.items() if k not in ("exception", "where")} for tr in it["traces"]],
                    }
                    for it in items
                ],
            },
            f,
        )
    res = run_tlc("MC_HistCheck", "MC_HistCheck.cfg", run, env={"HIST_DATA": path}, workers=workers, timeout=3000, tag=tag)
    os.unlink(path)
    if res.violated or not res.ok:
        raise MachineryFailure("MC_HistCheck: %s\n%s\n%s" % (res.violated, format_trace(res)[:3000], (res.error or res.out[-1500:])[:2500]))
    from .tlc import extract_tuples

    found = extract_tuples(res.out, "R-|P-")
    return res, found

"""Parser for TLC's printed value syntax -> Python values.

<<a, b>> -> list; [f |-> v, ...] -> dict; {a, b} -> frozen list (sorted repr order kept);
(k :> v @@ ...) -> dict; "s" -> str; 12 / -3 -> int; TRUE/FALSE -> bool; bare identifiers -> str.
"""


class _P:
    def __init__(self, s):
        self.s = s
        self.i = 0

    def ws(self):
        s = self.s
        while self.i < len(s) and s[self.i] in " \t\r\n":
            self.i += 1

    def peek(self, k=1):
        return self.s[self.i : self.i + k]

    def expect(self, tok):
        self.ws()
        if not self.s.startswith(tok, self.i):
            raise ValueError("expected %r at %d in %r" % (tok, self.i, self.s[max(0, self.i - 20) : self.i + 20]))
        self.i += len(tok)

    def value(self):
        self.ws()
        s = self.s
        c = s[self.i]
        if s.startswith("<<", self.i):
            self.i += 2
            out = []
            self.ws()
            if s.startswith(">>", self.i):
                self.i += 2
                return out
            while True:
                out.append(self.value())
                self.ws()
                if s.startswith(">>", self.i):
                    self.i += 2
                    return out
                self.expect(",")
        if c == "[":
            self.i += 1
            out = {}
            self.ws()
            if s[self.i] == "]":
                self.i += 1
                return out
            while True:
                self.ws()
                j = self.i
                while s[self.i] not in " |\t":
                    self.i += 1
                key = s[j : self.i]
                self.expect("|->")
                out[key] = self.value()
                self.ws()
                if s[self.i] == "]":
                    self.i += 1
                    return out
                self.expect(",")
        if c == "{":
            self.i += 1
            out = []
            self.ws()
            if s[self.i] == "}":
                self.i += 1
                return out
            while True:
                out.append(self.value())
                self.ws()
                if s[self.i] == "}":
                    self.i += 1
                    return out
                self.expect(",")
        if c == "(":
            self.i += 1
            out = {}
            while True:
                k = self.value()
                self.expect(":>")
                v = self.value()
                out[k] = v
                self.ws()
                if s[self.i] == ")":
                    self.i += 1
                    return out
                self.expect("@@")
        if c == '"':
            self.i += 1
            buf = []
            while s[self.i] != '"':
                if s[self.i] == "\\":
                    self.i += 1
                    ch = s[self.i]
                    buf.append({"n": "\n", "t": "\t", "r": "\r", "f": "\f"}.get(ch, ch))
                else:
                    buf.append(s[self.i])
                self.i += 1
            self.i += 1
            return "".join(buf)
        j = self.i
        if c == "-" or c.isdigit():
            self.i += 1
            while self.i < len(s) and s[self.i].isdigit():
                self.i += 1
            return int(s[j : self.i])
        while self.i < len(s) and (s[self.i].isalnum() or s[self.i] in "_!"):
            self.i += 1
        w = s[j : self.i]
        if w == "TRUE":
            return True
        if w == "FALSE":
            return False
        if not w:
            raise ValueError("cannot parse at %d: %r" % (self.i, s[self.i : self.i + 30]))
        return w


def parse_value(s):
    p = _P(s.strip())
    v = p.value()
    return v


def parse_state(text):
    """A TLC state printout ("/\\ x = v" lines) -> dict."""
    out = {}
    cur = None
    buf = []
    for line in text.splitlines():
        if line.startswith("/\\ "):
            if cur:
                out[cur] = parse_value("\n".join(buf))
            name, _, rest = line[3:].partition(" = ")
            cur, buf = name.strip(), [rest]
        elif cur:
            buf.append(line)
    if cur:
        out[cur] = parse_value("\n".join(buf))
    return out

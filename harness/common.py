"""Shared run bookkeeping for every check: scratch dir, verdicts, evidence.

Exit codes: 0 property held on everything explored (known findings allowed),
1 at least one VIOLATION not listed in known_findings.json, 2 machinery failure.
"""
import atexit
import json
import os
import shutil
import sys
import tempfile
import time
import traceback

VERIF = os.path.dirname(os.path.dirname(os.path.abspath(__file__)))
REPO = os.environ.get("VERIF_REPO", "/repo")
GUARD = "ESP_IDF_KCONFIG_VERIF"


class MachineryFailure(Exception):
    """The check itself is broken (TLC error, vacuous coverage, harness bug)."""


def reraise_if_harness(e):
    """An exception whose innermost frame is harness code is a fault of the machinery, never of the tool under test."""
    tb = traceback.extract_tb(e.__traceback__)
    if tb and os.path.abspath(tb[-1].filename).startswith(os.path.join(VERIF, "harness")):
        raise MachineryFailure("the harness itself raised %s: %s at %s:%d" % (type(e).__name__, e, tb[-1].filename, tb[-1].lineno))


def load_known_findings():
    path = os.path.join(VERIF, "known_findings.json")
    if not os.path.exists(path):
        return []
    with open(path) as f:
        return json.load(f).get("findings", [])


class Run:
    def __init__(self, pid, tier=None, seed=None, level="model_checking"):
        self.pid = pid
        self.tier = tier or os.environ.get("VERIF_TIER", "quick")
        if self.tier not in ("quick", "thorough"):
            self.tier = "quick"
        self.seed = int(seed if seed is not None else os.environ.get("VERIF_SEED", "0") or 0)
        self.level = level
        self.t0 = time.time()
        self.scratch = tempfile.mkdtemp(prefix="verif_%s_" % pid)
        atexit.register(shutil.rmtree, self.scratch, True)
        os.environ["TMPDIR"] = self.scratch
        tempfile.tempdir = self.scratch
        self.cov = {
            "states": 0,
            "transitions": 0,
            "traces_validated_against_impl": 0,
            "evaluations": 0,
            "distinct_nontrivial": 0,
            "rule": "",
            "samples": [],
            "exhaustive": False,
        }
        self.assumptions = []
        self.violations = []
        self.known_hits = {}
        self.notes = []
        self.findings = [f for f in load_known_findings() if f.get("property") == pid and f.get("status") == "open"]
        # runs against another tree than /repo (seeded changes, VERIF_REPO) keep their replay files and evidence apart
        self.alt = None if REPO == "/repo" else os.path.join(VERIF, "out", "alt", os.path.basename(REPO.rstrip("/")))
        self.outdir = os.path.join(self.alt, pid) if self.alt else os.path.join(VERIF, "out", pid)
        shutil.rmtree(self.outdir, ignore_errors=True)

    # ----- coverage helpers
    def add(self, key, n=1):
        self.cov[key] = self.cov.get(key, 0) + n

    def sample(self, obj, limit=4):
        if len(self.cov["samples"]) < limit:
            self.cov["samples"].append(obj)

    def note(self, msg):
        self.notes.append(msg)
        print("NOTE " + msg)

    def drift(self, what):
        self.cov["drift"] = self.cov.get("drift", 0) + 1
        kinds = self.cov.setdefault("drift_kinds", {})
        kinds[what] = kinds.get(what, 0) + 1

    def sub(self, name):
        return os.path.join(self.scratch, name)

    # ----- verdicts
    def report(self, what, replay, tags=()):
        """A failed predicate on the implementation. `tags` are mechanism tags the
        known-finding matchers look at; `replay` is a JSON-able dict."""
        tags = set(tags)
        for f in self.findings:
            need = set(f.get("match_tags", []))
            if need and need <= tags:
                k = f["id"]
                if k not in self.known_hits:
                    self.known_hits[k] = [f, 0, replay]
                self.known_hits[k][1] += 1
                return "known"
        if len(self.violations) < 25:
            os.makedirs(self.outdir, exist_ok=True)
            path = os.path.join(self.outdir, "violation_%03d.json" % len(self.violations))
            with open(path, "w") as f:
                json.dump({"property": self.pid, "what": what, "tags": sorted(tags), "replay": replay}, f, indent=1, default=str)
            print("VIOLATION property=%s replay=%s" % (self.pid, path))
            print("  " + what[:400])
        else:
            path = None
        self.violations.append((what, path))
        return "violation"

    def finish(self):
        for k, (f, n, _) in sorted(self.known_hits.items()):
            print("KNOWN-FINDING: property=%s %s (%d occurrence(s) this run)" % (self.pid, f["what"], n))
        cov = self.cov
        if not cov["samples"]:
            cov["samples"] = ["(no sample recorded)"]
        cov["known_finding_hits"] = {k: v[1] for k, v in self.known_hits.items()}
        if self.notes:
            cov["notes"] = self.notes[:40]
        ev = {
            "property_id": self.pid,
            "tier": self.tier,
            "seed": self.seed,
            "level": self.level,
            "coverage": cov,
            "assumptions": self.assumptions,
            "wall_s": round(time.time() - self.t0, 2),
            "violations": len(self.violations),
        }
        evdir = self.alt or os.path.join(VERIF, "evidence")
        os.makedirs(evdir, exist_ok=True)
        with open(os.path.join(evdir, self.pid + ".json"), "w") as f:
            json.dump(ev, f, indent=1, default=str)
            f.write("\n")
        print(
            "%s tier=%s seed=%d states=%d transitions=%d impl_traces=%d evaluations=%d nontrivial=%d violations=%d known=%d wall=%.1fs"
            % (
                self.pid,
                self.tier,
                self.seed,
                cov["states"],
                cov["transitions"],
                cov["traces_validated_against_impl"],
                cov["evaluations"],
                cov["distinct_nontrivial"],
                len(self.violations),
                sum(v[1] for v in self.known_hits.values()),
                ev["wall_s"],
            )
        )
        return 1 if self.violations else 0


def main_wrapper(pid, fn):
    """Run `fn(run)`; map exceptions to exit 2."""
    import argparse

    ap = argparse.ArgumentParser()
    ap.add_argument("--tier", default=None)
    ap.add_argument("--seed", default=None)
    ap.add_argument("--replay", default=None)
    args = ap.parse_args(sys.argv[2:])
    run = Run(pid, args.tier, args.seed)
    # the library prints diagnostics to stderr; keep the check's output clean
    sys.stderr = open(os.devnull, "w")
    run.replay_path = args.replay
    try:
        fn(run)
        rc = run.finish()
    except MachineryFailure as e:
        print("MACHINERY-FAILURE %s: %s" % (pid, e))
        rc = 2
    except KeyboardInterrupt:
        raise
    except BaseException:  # SystemExit raised inside the tool under test must not become this check's exit status
        traceback.print_exc(file=sys.stdout)
        print("MACHINERY-FAILURE %s: harness exception" % pid)
        rc = 2
    sys.stdout.flush()
    return rc

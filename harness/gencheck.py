"""kconfgen's command-line flow, bound to spec/KStore.tla GenRun (spec/MC_Gen.tla).

The real kconfgen main() (click callback, in-process) is run with --defaults files, an sdkconfig that is absent /
written by a previous run / written by a previous run under other defaults files, and `--output config` pointing at
the sdkconfig itself, under both defaults policies.  What it wrote is compared by TLC with Render(GenRun(...)); a run
on its own output with unchanged defaults files must rewrite nothing and report nothing (C02 through the CLI).
"""
import json
import os
import random

from . import kc, ktree, storecheck
from .common import MachineryFailure
from .tlc import extract_tuples, run_tlc


def defaults_text(lines):
    """sdkconfig.defaults style: bare assignments, `CONFIG_X=` for an empty right-hand side, some indented."""
    out = []
    for ln in lines:
        pad = ln.get("pad", "")
        if ln["t"] == "string":
            out.append("%sCONFIG_%s=%s" % (pad, ln["n"], ktree.q(ln["v"])))
        elif ln.get("u"):
            out.append("%s# CONFIG_%s is not set" % (pad, ln["n"]))
        else:
            out.append("%sCONFIG_%s=%s" % (pad, ln["n"], ln["v"]))
    return "\n".join(out) + "\n"


def spec_lines(lines):
    return [{"n": ln["n"], "v": ln["v"], "d": bool(ln.get("d")), "u": bool(ln.get("u"))} for ln in lines]


def defaults_variants(prog, rng):
    """A few lists of defaults files for a program: [], one file, two files with a conflicting line."""
    info = ktree.sym_info(prog)
    vars_ = ktree.user_candidates(prog, rng, 10**6)
    pool = []
    for v in vars_:
        if v["kind"] == "sym":
            t = info[v["n"]]["type"]
            for c in [c for c in v["cands"] if c != ktree.NOVAL][:2]:
                ln = {"n": v["n"], "v": c, "t": t}
                if t == "bool" and c == "n":
                    form = rng.randrange(3)
                    if form == 0:
                        ln["u"] = True  # `# CONFIG_X is not set`
                    elif form == 1:
                        ln["v"] = ""  # `CONFIG_X=`: kconfgen reads it as n
                pool.append(ln)
        else:
            for m in ktree.members(prog, v["n"])[-2:]:
                pool.append({"n": m, "v": "y", "t": "bool"})
    rng.shuffle(pool)
    if not pool:
        return [[]]
    def distinct(lines):  # one assignment per option in a hand-written file (a repeated one is rightly reported)
        seen, out = set(), []
        for ln in lines:
            if ln["n"] not in seen:
                seen.add(ln["n"])
                out.append(ln)
        return out

    f1 = distinct(pool[:3])[:2]
    f2 = distinct(pool[2:5])[:2] or pool[:1]
    # a second file contradicting the first one on its first option, where another candidate exists
    other = [ln for ln in pool if ln["n"] == f1[0]["n"] and ln is not f1[0]]
    f3 = distinct((other[:1] or f1[:1]) + pool[4:5])
    if rng.random() < 0.5 and f1:
        f1 = [dict(f1[0], pad="  ")] + f1[1:]  # kconfgen strips each line of a defaults file
    return [[], [f1], [f1, f3], [f2]]


def run_gen(kpath, sdk, defaults_paths, policy):
    import kconfgen.core as kg
    from esp_kconfiglib.report import KconfigReport

    old = os.environ.get("KCONFIG_DEFAULTS_POLICY")
    os.environ["KCONFIG_DEFAULTS_POLICY"] = policy
    try:
        kg.main.callback(
            sdkconfig_file=sdk,
            defaults=tuple(defaults_paths),
            kconfig=kpath,
            sdkconfig_rename=None,
            dont_write_deprecated=False,
            menuconfig=False,
            output=[("config", sdk)],
            env=(),
            env_file=None,
            list_separator="space",
        )
    finally:
        if old is None:
            os.environ.pop("KCONFIG_DEFAULTS_POLICY", None)
        else:
            os.environ["KCONFIG_DEFAULTS_POLICY"] = old
    inst = KconfigReport._instance
    kconf = inst.kconfig if inst is not None else None
    diag = storecheck.report_quiet(kconf) if kconf is not None else []
    diag = [d for d in diag if not d.startswith("unknown-symbol")]
    if kconf is not None:
        kc.reset_report(kconf)
    return diag


def stat_sig(p):
    st = os.stat(p)
    return (st.st_ino, st.st_mtime_ns, st.st_size)


def one_case(d, kpath, info, ds, sdk_text, policy, fix):
    """Runs kconfgen once; returns the case record for TLC."""
    sdk = os.path.join(d, "sdkconfig")
    for junk in os.listdir(d):
        if junk.startswith("sdkconfig"):
            os.unlink(os.path.join(d, junk))
    dpaths = []
    for j, f in enumerate(ds):
        dpaths.append(kc.write_text(os.path.join(d, "sdkconfig.defaults.%d" % j), defaults_text(f)))
    if sdk_text is not None:
        kc.write_text(sdk, sdk_text)
        os.utime(sdk, ns=(10**18, 10**18))
        before = stat_sig(sdk)
    case = {
        "ds": [spec_lines(f) for f in ds],
        "sdk": {"ex": sdk_text is not None, "lines": [{"n": n, "v": v, "d": bool(dd), "u": bool(info.get(n, {}).get("type") == "bool" and v == "n")} for n, v, dd in storecheck.parse_sdkconfig(sdk_text or "", info)]},
        "policy": policy,
        "fix": bool(fix),
        "err": False,
        "obs": {"lines": [], "same": True, "diag": []},
    }
    try:
        diag = run_gen(kpath, sdk, dpaths, policy)
        with open(sdk, newline="") as f:
            out = f.read()
        case["obs"] = {
            "lines": [[n, v, bool(dd)] for n, v, dd in storecheck.parse_sdkconfig(out, info)],
            "same": (sdk_text is not None and out == sdk_text and stat_sig(sdk) == before),
            "diag": diag,
        }
        return case, out, None
    except BaseException as e:  # log.die raises SystemExit
        case["err"] = True
        return case, None, "%s: %s" % (type(e).__name__, str(e)[:200])


def main(run, items):
    """items: programs ({"prog", "ord"}).  Returns number of kconfgen runs."""
    d = run.sub("gen")
    os.makedirs(d, exist_ok=True)
    progs = []
    total = 0
    for pi, it in enumerate(items):
        rng = random.Random("%d/gen%d" % (run.seed, pi))
        prog = it["prog"]
        text = ktree.render(prog)
        info = ktree.sym_info(prog)
        kpath = kc.write_text(os.path.join(d, "Kconfig"), text)
        variants = defaults_variants(prog, rng)
        cases, metas = [], []

        def add(ds, sdk_text, policy, fix, label):
            case, out, err = one_case(d, kpath, info, ds, sdk_text, policy, fix)
            cases.append(case)
            metas.append({"label": label, "defaults": [defaults_text(f) for f in ds], "sdkconfig": sdk_text, "policy": policy})
            if err:
                run.report("kconfgen raised %s (%s)" % (err, label), {"kconfig": text, "defaults": [defaults_text(f) for f in ds], "sdkconfig": sdk_text, "policy": policy, "exception": err}, {"exception", "kconfgen"})
            return out

        outs = []
        for vi, ds in enumerate(variants):
            policy = ("sdkconfig", "kconfig")[vi % 2]
            o1 = add(ds, None, policy, False, "first run, defaults variant %d" % vi)
            if o1 is None:
                continue
            outs.append((vi, o1))
            add(ds, o1, policy, True, "second run on its own output, defaults variant %d" % vi)
        # the defaults files changed after the sdkconfig was written: stored defaults may no longer match
        for vi, o1 in outs:
            for vj, ds in enumerate(variants):
                if vj != vi and (vi + vj) % 2 == 1:
                    for policy in ("sdkconfig", "kconfig"):
                        add(ds, o1, policy, False, "sdkconfig of defaults variant %d, now defaults variant %d" % (vi, vj))
        total += len(cases)
        progs.append({"prog": prog, "ord": it["ord"], "cases": cases, "text": text, "metas": metas})
    run.add("evaluations", total)
    bad = 0
    design = {}
    for b in range(0, len(progs), 80):
        batch = progs[b : b + 80]
        strings = set()
        for p in batch:
            ktree.strings_of(p["prog"], strings)
            ktree.strings_of(p["cases"], strings)
        tab = ktree.tables(strings)
        path = run.sub("gen_%d.json" % b)
        with open(path, "w") as f:
            json.dump({"tab": tab, "progs": [{k: v for k, v in p.items() if k not in ("text", "metas")} for p in batch]}, f)
        res = run_tlc("MC_Gen", "MC_Gen.cfg", run, env={"GEN_DATA": path}, workers=16, timeout=3000, tag="gen%d" % b)
        os.unlink(path)
        if res.violated or not res.ok:
            raise MachineryFailure("MC_Gen: %s\n%s" % (res.violated, (res.error or res.out[-2500:])[:3000]))
        run.add("states", res.distinct)
        run.add("transitions", res.generated)
        for v in extract_tuples(res.out, "D-|R-|P-"):
            tag, t, i, a, bb = v[0], v[1], v[2], v[3], v[4]
            if tag.startswith("D-"):
                design[tag] = design.get(tag, 0) + 1
                continue
            p = batch[t - 1]
            m = p["metas"][i - 1]
            bad += 1
            run.report("%s (%s, policy %s): %s vs %s" % (tag, m["label"], m["policy"], str(a)[:300], str(bb)[:300]), dict(m, kconfig=p["text"], clause=tag, expected=a, observed=bb), {tag, "kconfgen"})
    run.cov["kconfgen_runs"] = total
    run.cov["kconfgen_design_level"] = design
    return total, bad

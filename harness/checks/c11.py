"""C11 — a deprecated name behaves exactly like its replacement.

spec/KStore.tla: Load with a rename table (last mapping wins, inversion for
bools, `is not set` on an inverted alias means y, default flag dropped) and
Rewrite (old names replaced in place).  TLC checks AliasEquiv / NoUnknownAlias
on the model for every (program, rename table, file) case (MC_Rename.tla),
compares with the real loader on the file and on the rewritten file, and
evaluates the property clauses on the observations (also: deprecated block
ignored unless requested; when requested its entries evaluate to what was
written)."""
import itertools
import json
import os
import random

from .. import kc, ktree
from ..common import MachineryFailure
from ..ktree import Y, mk_config
from ..tlc import extract_tuples, run_tlc

C = lambda v: ["c", v]  # noqa: E731
S = lambda n: ["s", n]  # noqa: E731


def program(stale_refs=False):
    """stale_refs: the tree still mentions the deprecated names OLDT / OLDN in conditions without defining
    them (they are undefined names there: n / their own text); loading through them must work all the same."""
    ents = [
        mk_config("G", "bool", prompt=Y, defaults=[{"v": ["y"], "c": Y}]),
        mk_config("T", "bool", prompt=Y, defaults=[{"v": ["n"], "c": Y}]),
        mk_config("N", "int", prompt=Y, defaults=[{"v": C("5"), "c": Y}], ranges=[{"lo": C("0"), "hi": C("100"), "c": Y}]),
        mk_config("S", "string", prompt=Y, defaults=[{"v": C("sv"), "c": Y}]),
        mk_config("H", "hex", prompt=Y, defaults=[{"v": C("0x10"), "c": Y}]),
        mk_config("D", "bool", prompt=Y, dep=S("T"), defaults=[{"v": ["y"], "c": Y}]),
        {
            "k": "choice",
            "id": "<choice 1>",
            "title": "ch",
            "prompt": [Y],
            "dep": Y,
            "defaults": [],
            "children": [mk_config("M1", "bool", prompt=Y), mk_config("M2", "bool", prompt=Y)],
        },
        mk_config("OBS", "bool", defaults=[{"v": ["y"], "c": ["=", S("N"), C("7")]}]),
    ]
    order = [["s", "G"], ["s", "T"], ["s", "N"], ["s", "S"], ["s", "H"], ["s", "D"], ["ch", "<choice 1>"], ["s", "M1"], ["s", "M2"], ["s", "OBS"]]
    if stale_refs:
        ents += [
            mk_config("OBS2", "bool", defaults=[{"v": ["y"], "c": ["!", S("OLDT")]}]),
            mk_config("OBS3", "bool", prompt=Y, dep=["!", ["=", S("OLDN"), C("7")]], defaults=[{"v": ["y"], "c": S("old_lower")}]),
        ]
        order += [["s", "OBS2"], ["s", "OBS3"]]
    return {"prog": ents, "ord": order}


TABLES = [
    # (files of rename lines: [old, new, inverted])
    [[["OLDT", "T", False], ["OLDN", "N", False], ["OLDS", "S", False]]],
    [[["OLDT", "T", True], ["OLD2", "T", False]], [["old_lower", "N", False], ["OLDH", "H", False]]],
    [[["OLDT", "G", False], ["OLDX", "NOPE", False]], [["OLDT", "T", True], ["OLDM", "M2", False], ["OLDS", "S", True]]],
    # an inverted mapping replaced by a plain one (the stale inversion must not survive), and the reverse
    [[["OLDT", "G", True], ["OLD2", "T", False]], [["OLDT", "T", False], ["OLD2", "G", True]]],
    # the same name mapped twice to the same option, the marker differing (within one file / across files): last one wins
    [[["OLDT", "T", True], ["OLDT", "T", False], ["OLDN", "N", False]]],
    [[["OLDT", "T", False]], [["OLDT", "T", True], ["OLDT", "T", True]]],
]


def tables_for(tier):
    if tier == "quick":
        return TABLES
    # every ordered pair of mappings of one old name over two bool targets and both markers
    opts = [(n, inv) for n in ("T", "G") for inv in (False, True)]
    extra = [[[["OLDT", a[0], a[1]], ["OLDT", b[0], b[1]]]] for a in opts for b in opts]
    return TABLES + [t for t in extra if t not in TABLES]


TYPES = {"G": "bool", "T": "bool", "N": "int", "S": "string", "H": "hex", "D": "bool", "M1": "bool", "M2": "bool", "OBS": "bool", "OBS2": "bool", "OBS3": "bool"}


def line(n, v, unset=False, d=False, t=None):
    return {"n": n, "v": v, "u": unset, "d": d, "t": t}


def universe(tab_lines):
    m = {}
    for old, new, inv in tab_lines:
        m[old] = (new, inv)
    u = [line("T", "y"), line("T", "n", unset=True), line("N", "3"), line("S", "zz"), line("ZZZ", "1"), line("M1", "y")]
    for old, (new, inv) in m.items():
        t = TYPES.get(new)
        if t == "bool" or t is None:
            u.append(line(old, "y", t=t))
            u.append(line(old, "n", unset=True, t=t))
            u.append(line(old, "foo", t=t))  # not a bool value: ignored under the new name, hence under the old one
        elif t == "int":
            u += [line(old, "7", t=t), line(old, "abc", t=t), line(old, "9", d=True, t=t)]
        elif t == "string":
            u += [line(old, "x y", t=t), line(old, "n", unset=True, t=t)]
        elif t == "hex":
            u += [line(old, "0x2f", t=t)]
    return u


def text_of(lines):
    out = []
    in_blk = False
    for ln in lines:
        if ln.get("blk") and not in_blk:
            out.append("# Deprecated options for backward compatibility")
            in_blk = True
        if ln.get("d"):
            out.append("# default:")
        t = ln.get("t") or TYPES.get(ln["n"])
        if ln["u"]:
            out.append("# CONFIG_%s is not set" % ln["n"])
        elif t == "string":
            out.append("CONFIG_%s=%s" % (ln["n"], ktree.q(ln["v"])))
        else:
            out.append("CONFIG_%s=%s" % (ln["n"], ln["v"]))
    if in_blk:
        out.append("# End of deprecated options")
    return "\n".join(out) + "\n"


def rewrite(lines, tab_lines):
    """Harness-side rewriting (compared with the specification's Rewrite by TLC)."""
    m = {}
    for old, new, inv in tab_lines:
        m[old] = (new, inv)
    out = []
    for ln in lines:
        if ln["n"] in TYPES or ln["n"] not in m or m[ln["n"]][0] not in TYPES:
            out.append(dict(ln))
            continue
        new, inv = m[ln["n"]]
        t = TYPES[new]
        v = ln["v"]
        if inv and t == "bool" and v in ("y", "n"):
            v = "n" if v == "y" else "y"
        out.append({"n": new, "v": v, "u": (v == "n") if t == "bool" else ln["u"], "d": False, "t": t})
    return out


def load_vals(run, text, ren_files, file_text, names, load_deprecated=False):
    k = kc.build(text, run.scratch)
    d = os.path.join(run.scratch, "c11")
    os.makedirs(d, exist_ok=True)
    paths = []
    for j, lines in enumerate(ren_files):
        p = os.path.join(d, "rename_%d" % j)
        kc.write_text(p, "".join("CONFIG_%s %sCONFIG_%s\n" % (o, "!" if inv else "", n) for o, n, inv in lines))
        paths.append(p)
    if paths:
        k.load_rename_files(paths)
    p = os.path.join(d, "sdkconfig")
    kc.write_text(p, file_text)
    k.load_config(p, load_deprecated=load_deprecated)
    vals = [k.syms[n].str_value for n in names]
    missing = [[a, b] for a, b in k.missing_syms]
    kc.reset_report(k)
    return k, vals, missing


def main(run):
    tier = run.tier
    rng = random.Random(run.seed)
    progs = []
    total = 0
    base_tables = tables_for(tier)
    all_tables = []
    for stale, ren_files in [(False, t) for t in base_tables] + [(True, t) for t in base_tables]:
        item = program(stale)
        text = ktree.render(item["prog"])
        names = ktree.sym_names(item["prog"])
        all_tables.append(ren_files)
        tab_lines = [ln for f in ren_files for ln in f]
        uni = universe(tab_lines)
        files = []
        for r in (1, 2, 3):
            for combo in itertools.permutations(range(len(uni)), r):
                files.append([dict(uni[k]) for k in combo])
        if tier == "quick":
            keep = [f for f in files if len(f) <= 2]
            three = [f for f in files if len(f) == 3]
            step = max(1, len(three) // 250)
            files = keep + three[::step]
        cases = []
        for fi, f in enumerate(files):
            blk = []
            if fi % 5 == 0:  # a deprecated block contradicting the main part
                for old, new, inv in tab_lines[:3]:
                    t = TYPES.get(new)
                    if t == "bool":
                        blk.append({"n": old, "v": "y", "u": False, "d": False, "t": t, "blk": True})
                    elif t == "int":
                        # (an empty right-hand side is what the tool writes for an int option without a value)
                        blk.append({"n": old, "v": ["42", "", "7"][(fi // 5) % 3], "u": False, "d": False, "t": t, "blk": True})
                    elif t == "string":
                        blk.append({"n": old, "v": ["blk", "rock 'n'", 'a"b', "a\\b", "'q'"][(fi // 5) % 5], "u": False, "d": False, "t": t, "blk": True})
            full = [dict(ln, blk=False) for ln in f] + blk
            rw = rewrite([ln for ln in full if not ln["blk"]], tab_lines)
            case = {
                "file": [{"n": ln["n"], "v": ln["v"], "u": ln["u"], "d": ln["d"], "blk": ln["blk"]} for ln in full],
                "rewritten": [[ln["n"], ln["v"], ln["u"]] for ln in rw],
                "err": False,
                "obs": {"vals": [], "vals_rw": [], "missing": [], "vals_noblock": [], "evals": []},
            }
            try:
                _, vals, missing = load_vals(run, text, ren_files, text_of(full), names)
                _, vals_rw, _ = load_vals(run, text, [], text_of(rw), names)
                _, vals_nb, _ = load_vals(run, text, ren_files, text_of([ln for ln in full if not ln["blk"]]), names) if blk else (None, vals, None)
                evals = []
                if blk:
                    k, _, _ = load_vals(run, text, ren_files, text_of(full), names, load_deprecated=True)
                    for ln in blk:
                        if ln["t"] == "bool":
                            got = {0: "n", 2: "y"}.get(k.eval_string(ln["n"]), "?")
                            evals.append([ln["n"], ln["v"], got])
                        elif ln["t"] == "int":
                            if ln["v"] == "":
                                continue  # nothing was written for it: loading must simply not raise
                            got = {0: "n", 2: "y"}.get(k.eval_string("%s = %s" % (ln["n"], ln["v"])), "?")
                            evals.append([ln["n"] + "=" + ln["v"], "y", got])
                        else:
                            got = {0: "n", 2: "y"}.get(k.eval_string("%s = %s" % (ln["n"], ktree.q(ln["v"]))), "?")
                            evals.append([ln["n"] + "=" + ln["v"], "y", got])
                    kc.reset_report(k)
                case["obs"] = {"vals": vals, "vals_rw": vals_rw, "missing": missing, "vals_noblock": vals_nb, "evals": evals}
            except Exception as e:
                case["err"] = True
                run.report(
                    "the loader raised %s: %s on file %r with renames %s" % (type(e).__name__, str(e)[:200], text_of(full), ren_files),
                    {"kconfig": text, "renames": ren_files, "file": text_of(full), "exception": "%s: %s" % (type(e).__name__, str(e)[:300])},
                    {"exception", type(e).__name__},
                )
            cases.append(case)
            total += 1
        progs.append({"prog": item["prog"], "ord": item["ord"], "renames": tab_lines, "cases": cases, "files_text": text})
    run.add("evaluations", total)
    strings = set()
    ktree.strings_of(item["prog"], strings)
    for p in progs:
        ktree.strings_of(p["cases"], strings)
        ktree.strings_of(p["renames"], strings)
    tab = ktree.tables(strings)
    path = run.sub("ren.json")
    with open(path, "w") as f:
        json.dump({"tab": tab, "progs": [{k: v for k, v in p.items() if k != "files_text"} for p in progs]}, f)
    res = run_tlc("MC_Rename", "MC_Rename.cfg", run, env={"REN_DATA": path}, workers=16, timeout=3000, tag="ren")
    os.unlink(path)
    if res.violated or not res.ok:
        raise MachineryFailure("MC_Rename: %s\n%s" % (res.violated, (res.error or res.out[-2500:])[:3000]))
    run.add("states", res.distinct)
    run.add("transitions", res.generated)
    bad = set()
    design = {}
    for v in extract_tuples(res.out, "M-|D-|R-|P-"):
        tag, t, i, a, b = v[0], v[1], v[2], v[3], v[4]
        case = progs[t - 1]["cases"][i - 1]
        if tag.startswith("M-"):
            raise MachineryFailure("harness and specification rewrite a file differently: %s vs %s" % (a, b))
        if tag.startswith("D-"):
            design[tag] = design.get(tag, 0) + 1
            continue
        bad.add((t, i))
        run.report(
            "%s: %s vs %s for file %r with renames %s" % (tag, a, b, text_of([dict(ln, t=None) for ln in case["file"]]), all_tables[t - 1]),
            {"kconfig": progs[t - 1]["files_text"], "renames": all_tables[t - 1], "file": case["file"], "clause": tag, "expected": a, "observed": b},
            {tag},
        )
    run.cov["traces_validated_against_impl"] = total - len(bad)
    run.cov["design_level_counterexamples"] = design
    run.cov["distinct_nontrivial"] = sum(1 for p in progs for c in p["cases"] if any(ln["n"] not in TYPES for ln in c["file"]))
    run.cov["exhaustive"] = tier == "thorough"
    run.cov["rule"] = (
        "one program (bool/int/string/hex options, a dependent option, a choice), with and without stale mentions of the deprecated names in conditions, x 6 rename tables (several files, duplicate old name "
        "with last-wins, inversions incl. on a non-bool, a lower-case old name, an alias of a choice member, an alias of an undefined "
        "option) x every ordered selection of <= 3 lines from a universe mixing old and new names, valid and invalid values, "
        "default-marked alias lines and unknown names; every 5th file carries a contradicting deprecated block; non-trivial = the "
        "file uses at least one name that is not an option of the tree"
    )
    run.sample({"renames": TABLES[1], "file": text_of([dict(ln, t=None) for ln in progs[1]["cases"][40]["file"]]), "observed": progs[1]["cases"][40]["obs"]})
    run.sample({"renames": TABLES[2], "file": text_of([dict(ln, t=None) for ln in progs[2]["cases"][-1]["file"]]), "observed": progs[2]["cases"][-1]["obs"]})
    run.assumptions += ["for an alias whose replacement is not defined only 'nothing raises, no defined option changes' is required (missing-symbol entries for it are not compared)"]

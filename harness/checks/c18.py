"""C18 — kconfcheck leaves compliant files alone and its fixes converge.

spec/CheckIndent.tla models the per-line checker chain (indentation levels,
forced indent after a continuation, help-text recognition, tab / trailing
white-space rule) and what one `--replace` pass writes.  Canonical renderings
of generated programs, and manglings of them (indent +-k, tabs for
indentation, trailing blanks on up to three lines), are run through the real
validate_file(replace=True) until it reports OK; TLC (MC_Indent.tla) computes
the specification's passes for the same files, compares verdict and
(indent, tabs, trailing) of every line after every pass, and evaluates
CanonicalOK / Converges / Idempotent / SameProgram on model and observations.
sdkconfig.rename files get the analogous treatment by the harness."""
import copy
import json
import os
import random
import shutil

from .. import absx, kc, ktree, lattice
from ..common import MachineryFailure
from ..tlc import extract_tuples, run_tlc

PFX = "TST_"


def rename(obj):
    """Every option / named choice gets the common prefix the checker demands."""
    if isinstance(obj, list):
        if len(obj) == 2 and obj[0] == "s" and isinstance(obj[1], str):
            return ["s", PFX + obj[1]]
        return [rename(x) for x in obj]
    if isinstance(obj, dict):
        out = {}
        for k, v in obj.items():
            if k in ("name", "t", "m") and isinstance(v, str):
                out[k] = PFX + v
            elif k == "id" and isinstance(v, str) and not v.startswith("<"):
                out[k] = PFX + v
            else:
                out[k] = rename(v)
        return out
    return obj


def tame_ifs(entries, counter=[0]):
    """The name-prefix rule (no automatic fix, not a white-space defect) applies when a menu or choice is
    closed directly inside an `if`: such ifs become menus, ifs around plain options stay."""
    out = []
    for e in entries:
        if "children" in e:
            e = dict(e, children=tame_ifs(e["children"]))
        if e["k"] == "if" and any(c["k"] in ("menu", "choice", "if") for c in e["children"]):
            counter[0] += 1
            e = {"k": "menu", "title": "cond %d" % counter[0], "dep": e["c"], "visif": ["y"], "children": e["children"]}
        out.append(e)
    return out


HELP_TEXTS = ["Plain help text.", "if this is enabled, things happen.", "config options are described here.", "choice of words matters."]


def lines_of(entries, level, out, rng):
    """(kind, kw, text, level) per line of the canonical rendering (no mainmenu: a component file)."""
    for e in entries:
        k = e["k"]
        if k == "config":
            out.append(("menuconfig" if e.get("menuconfig") else "config", "", "%s %s" % ("menuconfig" if e.get("menuconfig") else "config", e["name"]), level))
            for ln in ktree._config_lines(e, {}, rng):
                cont = False
                out.append(("prop", "", ln, level + 1))
            if rng.random() < 0.5:
                out.append(("help", "", "help", level + 1))
                txt = rng.choice(HELP_TEXTS)
                kw = txt.split()[0] if txt.split()[0] in ("if", "config", "choice") else ""
                out.append(("text", kw, txt, level + 2))
                if rng.random() < 0.5:
                    out.append(("blank", "", "", 0))
                    out.append(("text", "", "Second paragraph, more deeply indented:", level + 2))
                    out.append(("text", "", "example line", level + 2.5))
            if rng.random() < 0.25:  # an include right after the entry (all four spellings), with or without a blank line
                if rng.random() < 0.5:
                    out.append(("blank", "", "", 0))
                kw = rng.choice(["source", "rsource", "orsource", "osource"])
                out.append(("source", "", '%s "%s"' % (kw, "Kconfig.none" if kw == "osource" and rng.random() < 0.5 else "Kconfig.inc"), level))
            out.append(("blank", "", "", 0))
        elif k == "menu":
            out.append(("menu", "", 'menu "%s"' % e.get("title", "menu"), level))
            if e["dep"] != ["y"]:
                out.append(("prop", "", "depends on %s" % ktree.expr_text(e["dep"]), level + 1))
            if e["visif"] != ["y"]:
                out.append(("prop", "", "visible if %s" % ktree.expr_text(e["visif"]), level + 1))
            out.append(("blank", "", "", 0))
            lines_of(e["children"], level + 1, out, rng)
            out.append(("endmenu", "", "endmenu", level))
            out.append(("blank", "", "", 0))
        elif k == "if":
            out.append(("if", "", "if %s" % ktree.expr_text(e["c"]), level))
            out.append(("blank", "", "", 0))
            lines_of(e["children"], level + 1, out, rng)
            out.append(("endif", "", "endif", level))
            out.append(("blank", "", "", 0))
        elif k == "choice":
            name = e["id"] if not e["id"].startswith("<") else ""
            out.append(("choice", "", ("choice %s" % name).rstrip(), level))
            if e["prompt"]:
                out.append(("prop", "", 'prompt "%s"%s' % (e.get("title", "choice"), ktree.cond_suffix(e["prompt"][0])), level + 1))
            if e["dep"] != ["y"]:
                out.append(("prop", "", "depends on %s" % ktree.expr_text(e["dep"]), level + 1))
            for d in e["defaults"]:
                out.append(("prop", "", "default %s%s" % (d["m"], ktree.cond_suffix(d["c"])), level + 1))
            out.append(("blank", "", "", 0))
            lines_of(e["children"], level + 1, out, rng)
            out.append(("endchoice", "", "endchoice", level))
            out.append(("blank", "", "", 0))
        elif k == "comment":
            out.append(("comment", "", 'comment "%s"' % e.get("title", "comment"), level))
            if e["dep"] != ["y"]:
                out.append(("prop", "", "depends on %s" % ktree.expr_text(e["dep"]), level + 1))
            out.append(("blank", "", "", 0))


def canonical(prog, rng):
    out = [("hash", "", "# generated component Kconfig", 0), ("menu", "", 'menu "Component"', 0), ("blank", "", "", 0)]
    lines_of(prog, 1, out, rng)
    out.append(("endmenu", "", "endmenu", 0))
    # continuation lines: split one long `depends on A && B`
    res = []
    for kind, kw, text, level in out:
        if kind == "prop" and (" && " in text or " || " in text) and rng.random() < 0.4:
            k = text.find(" && ") if " && " in text else text.find(" || ")
            res.append({"k": "prop", "kw": "", "text": text[: k + 3] + " \\", "lead": " " * (4 * level), "trail": ""})
            res.append({"k": "prop", "kw": "", "text": text[k + 4 :], "lead": " " * (4 * (level + 1)), "trail": ""})
        else:
            res.append({"k": kind, "kw": kw, "text": text, "lead": "" if kind == "blank" else " " * int(4 * level), "trail": ""})
    return res


def text_of(lines):
    return "".join(ln["lead"] + ln["text"] + ln["trail"] + "\n" for ln in lines)


def abstract(lines):
    out = []
    for ln in lines:
        full = ln["lead"] + ln["text"] + ln["trail"]
        out.append(
            {
                "k": ln["k"],
                "kw": ln["kw"],
                "ind": len(ln["lead"]) if ln["k"] != "blank" else len(full),
                "tabs": full.count("\t"),
                "ltabs": ln["lead"].count("\t") if ln["k"] != "blank" else full.count("\t"),
                "trail": (ln["trail"] != "") if ln["k"] != "blank" else (full != ""),
                "cont": ln["text"].endswith("\\"),
            }
        )
    return out


def mangle(lines, rng, n):
    lines = copy.deepcopy(lines)
    idx = [i for i, ln in enumerate(lines)]
    rng.shuffle(idx)
    changed = []
    for i in idx[:n]:
        ln = lines[i]
        if ln["k"] == "blank":
            ln["lead"] = rng.choice(["  ", "\t", "    "])
            changed.append((i, "blank-ws"))
            continue
        kind = rng.choice(["more", "less", "tab", "trail", "trailtab", "tab+trail"])
        if kind == "more":
            ln["lead"] += " " * rng.choice([1, 2, 4])
        elif kind == "less":
            k = rng.choice([1, 2, 4])
            ln["lead"] = ln["lead"][k:] if len(ln["lead"]) >= k else ln["lead"] + " "
        elif kind in ("tab", "tab+trail"):
            n4 = len(ln["lead"]) // 4
            ln["lead"] = "\t" * n4 + ln["lead"][4 * n4 :] if n4 else "\t"
            if kind == "tab+trail":
                ln["trail"] = "  "
        elif kind == "trail":
            ln["trail"] = rng.choice([" ", "   "])
        else:
            ln["trail"] = "\t"
        changed.append((i, kind))
    return lines, changed


def shape_of_text(text):
    out = []
    for raw in text.split("\n")[:-1]:
        stripped = raw.strip()
        lead = len(raw) - len(raw.lstrip())
        if stripped == "":
            out.append([len(raw), raw.count("\t"), raw != ""])
        else:
            out.append([lead, raw.count("\t"), raw != raw.rstrip()])
    return out


def no_help(shape):
    return [row[:8] + row[9:] for row in shape]


def parse_shape(run, path, wrapper_dir):
    """Both parsers' view of the checked file (parser 2 needs a mainmenu: wrap it)."""
    w = os.path.join(wrapper_dir, "Kconfig")
    kc.write_text(w, 'mainmenu "w"\n\nsource "%s"\n' % path)
    inc = os.path.join(wrapper_dir, "Kconfig.inc")  # what the generated include lines name
    if not os.path.exists(inc):
        kc.write_text(inc, 'config %sINCLUDED\n    bool "included"\n' % PFX)
    out = []
    for v in (1, 2):
        try:
            os.environ["srctree"] = wrapper_dir
            k = kc.Kconfig(w, parser_version=v)
            out.append([no_help(absx.tree_shape(k)), absx.tree_defs(k)])  # help text is not configuration
            kc.reset_report(k)
        except Exception as e:
            out.append(["%s: %s" % (type(e).__name__, str(e)[:150])])
        finally:
            os.environ.pop("srctree", None)
    return out


def run_file(run, d, lines, maxpasses):
    import contextlib
    import io

    import kconfcheck.core as kcc

    path = os.path.join(d, "Kconfig.test")
    text0 = text_of(lines)
    kc.write_text(path, text0)
    before = parse_shape(run, path, d)
    oks, shapes = [], []
    sink = io.StringIO()
    err = None
    for _ in range(maxpasses):
        with contextlib.redirect_stdout(sink), contextlib.redirect_stderr(sink):
            try:
                ok = kcc.validate_file(path, replace=True)
            except BaseException as e:
                err = "%s: %s" % (type(e).__name__, str(e)[:200])
                break
        oks.append(bool(ok))
        with open(path, newline="") as f:
            shapes.append(shape_of_text(f.read()))
        if ok:
            break
    obs = {"ok": oks or [False], "shapes": shapes or [[]], "unchanged": False, "new_left": os.path.exists(path + ".new"), "idempotent": True, "same_program": True, "program_diff": ""}
    if err:
        return obs, err
    with open(path, newline="") as f:
        final = f.read()
    obs["unchanged"] = final == text0
    if oks and oks[-1]:
        with contextlib.redirect_stdout(sink), contextlib.redirect_stderr(sink):
            ok2 = kcc.validate_file(path, replace=True)
        with open(path, newline="") as f:
            again = f.read()
        obs["idempotent"] = bool(ok2) and again == final
        after = parse_shape(run, path, d)
        for v in (0, 1):
            if len(before[v]) == 2 and after[v] != before[v]:  # only where the original was readable by that parser
                obs["same_program"] = False
                obs["program_diff"] = "parser %d reads the accepted file differently from the original" % (v + 1)
    if os.path.exists(path + ".new"):
        os.unlink(path + ".new")
    return obs, None


def rename_file_check(run, d):
    """sdkconfig.rename: a compliant file is left alone; repeated replace converges and is then stable."""
    import contextlib
    import io

    import kconfcheck.core as kcc

    sink = io.StringIO()
    good = "# comment\nCONFIG_OLD_A CONFIG_NEW_A\nCONFIG_OLD_B !CONFIG_NEW_B\n\n"
    cases = [("compliant", good, True), ("lowercase-new", "CONFIG_OLD_A CONFIG_new_a\n", False), ("no-prefix", "OLD_A CONFIG_NEW_A\n", False)]
    # names at the documented limit (50 characters, the CONFIG_ prefix not counted), in a rename file and in a Kconfig file
    for n_ in (43, 44, 49, 50):
        cases.append(("new-name-%d" % n_, "CONFIG_OLD_A CONFIG_%s\n" % ("N" * n_), True))
        cases.append(("kconfig-name-%d" % n_, 'menu "m"\n\n    config %s\n        bool "b"\n        default y\n\nendmenu\n' % ("N" * n_), True))
    cases.append(("new-name-51", "CONFIG_OLD_A CONFIG_%s\n" % ("N" * 51), False))
    cases.append(("kconfig-name-51", 'menu "m"\n\n    config %s\n        bool "b"\n\nendmenu\n' % ("N" * 51), False))
    for name, text, compliant in cases:
        p = os.path.join(d, "Kconfig" if name.startswith("kconfig-") else "sdkconfig.rename")
        kc.write_text(p, text)
        oks = []
        for _ in range(4):
            with contextlib.redirect_stdout(sink), contextlib.redirect_stderr(sink):
                try:
                    ok = kcc.validate_file(p, replace=True)
                except BaseException as e:
                    run.report("sdkconfig.rename (%s): validate_file raised %s: %s" % (name, type(e).__name__, str(e)[:200]), {"file": text}, {"rename-file", "exception"})
                    ok = None
                    break
            oks.append(bool(ok))
            if ok:
                break
        with open(p) as f:
            final = f.read()
        if compliant and (oks != [True] or final != text or os.path.exists(p + ".new")):
            run.report("a compliant %s (%s) is not left alone: verdicts %s" % (os.path.basename(p), name, oks), {"file": text, "after": final}, {"rename-file", "P-CanonicalOK", name})
        if not compliant and name.endswith("-51") and (True in oks):
            run.report("%s (%s): a name of 51 characters is reported OK" % (os.path.basename(p), name), {"file": text, "after": final}, {"rename-file", "P-CanonicalOK", name})
        if oks and oks[-1]:
            with contextlib.redirect_stdout(sink), contextlib.redirect_stderr(sink):
                ok2 = kcc.validate_file(p, replace=True)
            with open(p) as f:
                again = f.read()
            if not ok2 or again != final:
                run.report("sdkconfig.rename (%s): a further pass changes an accepted file" % name, {"file": text, "after": final, "again": again}, {"rename-file", "P-Idempotent"})
        for junk in (p, p + ".new"):
            if os.path.exists(junk):
                os.unlink(junk)


def mech_tags(fl, mangled):
    """Mechanism tags of a failing file, for the known-finding matchers."""
    tags = set()
    if any(fl[i]["k"] == "text" and fl[i]["kw"] for i, _ in mangled):
        tags.add("help-text-starting-with-keyword")
    for i, kind in mangled:
        if kind in ("tab", "tab+trail") and fl[i]["k"] not in ("text", "blank", "hash"):
            prev = [x for x in fl[:i] if x["k"] not in ("blank", "hash")]
            if prev and prev[-1]["k"] in ("text", "help"):
                tags.add("tab-indented-line-after-help")
        if kind in ("tab", "tab+trail") and fl[i]["k"] == "text":
            # a tab-indented line inside a help text whose first line stands deeper than expected
            j = i
            while j > 0 and fl[j]["k"] != "help":
                j -= 1
            first = next((x for x in range(j + 1, i) if fl[x]["k"] == "text"), None)
            if first is not None and any(x == first and k_ == "more" for x, k_ in mangled):
                tags.add("tab-line-in-help-with-deeper-first-line")
    return tags


def help_depth_variants(can):
    """Hand-made manglings (not left to the seed): in every help text of two lines or more the first line stands one
    column deeper and a later line is indented with tabs."""
    out = []
    i = 0
    while i < len(can):
        if can[i]["k"] == "help":
            texts = []
            x = i + 1
            while x < len(can) and can[x]["k"] in ("text", "blank"):
                if can[x]["k"] == "text":
                    texts.append(x)
                x += 1
            if len(texts) >= 2:
                lines = copy.deepcopy(can)
                lines[texts[0]]["lead"] += " "
                ln = lines[texts[1]]
                n4 = len(ln["lead"]) // 4
                ln["lead"] = "\t" * n4 + ln["lead"][4 * n4:] if n4 else "\t"
                out.append((lines, [(texts[0], "more"), (texts[1], "tab")]))
            i = x
        else:
            i += 1
    return out[:2]


def main(run):
    tier = run.tier
    rng = random.Random(run.seed)
    from .c17 import nav_programs

    extra_prog = [
        {"k": "comment", "title": "a comment first", "dep": ["s", "A1"]},
        ktree.mk_config("A1", "bool", prompt=["y"], defaults=[{"v": ["y"], "c": ["y"]}]),
        {"k": "comment", "title": "between", "dep": ["y"]},
        ktree.mk_config("A2", "int", prompt=["y"], defaults=[{"v": ["c", "3"], "c": ["y"]}]),
        # words inside string literals are not option names, whatever stands next to them
        ktree.mk_config("A5", "string", prompt=["y"], defaults=[{"v": ["c", "one if two"], "c": ["y"]}, {"v": ["c", "depends on x"], "c": ["s", "A1"]}]),
        {"k": "if", "c": ["s", "A1"], "children": [ktree.mk_config("A3", "bool", prompt=["y"]), {"k": "comment", "title": "inside if", "dep": ["y"]}, ktree.mk_config("A4", "bool", prompt=["y"])]},
    ]
    bases = [{"prog": extra_prog, "ord": []}] + nav_programs() + [p for p in lattice.nest_lattice()[::6]] + [p for p in lattice.choice_lattice()[::40]] + ktree.generate(run.seed + 7100, 25 if tier == "quick" else 400)
    per = 14 if tier == "quick" else 60
    maxpasses = 6
    files = []
    meta = []
    d = run.sub("indent")
    os.makedirs(d)
    for bi, it in enumerate(bases):
        brng = random.Random("%d/i%d" % (run.seed, bi))
        prog = tame_ifs(rename(copy.deepcopy(it["prog"])))
        can = canonical(prog, brng)
        variants = [(can, True, [])]
        for j in range(per):
            m, changed = mangle(can, brng, brng.choice([1, 1, 2, 3]))
            variants.append((m, False, changed))
        if bi < 4:
            variants += [(m, False, changed) for m, changed in help_depth_variants(can)]
        for lines, is_can, changed in variants:
            obs, err = run_file(run, d, lines, maxpasses)
            if err:
                run.report("validate_file raised %s" % err, {"file": text_of(lines), "mangled": changed}, {"exception"} | mech_tags(abstract(lines), changed))
                continue
            files.append({"lines": abstract(lines), "canonical": is_can, "obs": obs})
            meta.append({"text": text_of(lines), "mangled": changed, "base": bi})
    rename_file_check(run, d)
    shutil.rmtree(d, ignore_errors=True)
    run.add("evaluations", len(files))
    bad = set()
    design = {}
    found = []
    chunk = 1500  # one TLC run per 1500 files (a single run over a thorough tier's 25 000 files did not finish in an hour)
    for b0 in range(0, len(files), chunk):
        path = run.sub("indent_%d.json" % b0)
        with open(path, "w") as f:
            json.dump({"files": files[b0 : b0 + chunk], "maxpasses": maxpasses}, f)
        res = run_tlc("MC_Indent", "MC_Indent.cfg", run, env={"INDENT_DATA": path}, workers=16, timeout=3000, tag="indent%d" % b0)
        os.unlink(path)
        if res.violated or not res.ok:
            raise MachineryFailure("MC_Indent: %s\n%s" % (res.violated, (res.error or res.out[-2500:])[:3000]))
        run.add("states", res.distinct)
        run.add("transitions", res.generated)
        for v in extract_tuples(res.out, "D-|R-|P-"):
            found.append([v[0], v[1] + b0, v[2], v[3]])
    for v in found:
        tag, t, a, b = v[0], v[1], v[2], v[3]
        if tag.startswith("D-"):
            design[tag] = design.get(tag, 0) + 1
            continue
        bad.add(t)
        m = meta[t - 1]
        tags = {tag}
        tags |= mech_tags(files[t - 1]["lines"], m["mangled"])
        run.report("%s: %s vs %s (mangled lines: %s)" % (tag, str(a)[:300], str(b)[:300], m["mangled"]), {"file": m["text"], "mangled": m["mangled"], "clause": tag, "expected": a, "observed": b, "passes": files[t - 1]["obs"]["ok"]}, tags)
    run.cov["traces_validated_against_impl"] = len(files) - len(bad)
    run.cov["design_level_counterexamples"] = design
    run.cov["distinct_nontrivial"] = sum(1 for f in files if not f["canonical"])
    run.cov["exhaustive"] = False
    run.cov["rule"] = (
        "component-style Kconfig files rendered canonically from programs (menus, ifs, choices, comments, menuconfig, help texts with blank "
        "lines / deeper indentation / first words that are keywords, continuation lines) and manglings of 1-3 lines (indent +1/+2/+4/-1/-2/-4, "
        "tabs for indentation, trailing blanks or tab, white space on blank lines); each run through validate_file(replace=True) until OK "
        "(<= 6 passes), once more, and parsed by both parsers before and after; non-trivial = mangled files"
    )
    run.sample({"file": meta[1]["text"][:700] if len(meta) > 1 else "", "mangled": meta[1]["mangled"] if len(meta) > 1 else [], "observed": files[1]["obs"]["ok"] if len(files) > 1 else []})
    run.assumptions += [
        "generated names already satisfy the naming rules (upper case, common prefix); the name rules and the 120-character rule are not exercised",
        "the checked file is a component-style file (no mainmenu); both parsers read it through a wrapper that sources it",
    ]

"""C01 — option values follow the documented precedence and visibility rules.

spec/KEval.tla is the language description (flattening of inherited
dependencies + the precedence list); TLC enumerates every configuration of
every program of the batch (MC_Eval.tla), checks HiddenUserInert on the
specification's values and compares the specification's value / visibility /
assignable set / sdkconfig line of every option with what the real
implementation reports for the same configuration.
"""
import random

from .. import evalcheck, ktree, lattice


def report_mismatches(run, cases, mism, pid_note):
    seen = set()
    for kind, t, i, detail in mism:
        case = cases[t - 1]
        asg = evalcheck.case_at(case, i)
        if kind == "M":
            name, spec, impl = detail
            what = "option %s: specification says value/vis/assignable/line = %s, implementation gives %s" % (name, spec, impl)
            key = (t, name, tuple(spec), tuple(impl))
        else:
            cid, spec, impl = detail
            what = "choice %s: specification selects %s, implementation %s" % (cid, spec, impl)
            key = (t, cid, spec, impl)
        if key in seen:
            continue
        seen.add(key)
        tags = lattice.tags_for(case, asg, detail, kind)
        run.report(what + " under " + str({k: v for k, v in asg.items() if v != ktree.NOVAL}), {"kconfig": case["text"], "assignment": asg, "detail": detail, "kind": kind}, tags)


def main(run, invariants=("All",), extra_rule=""):
    tier = run.tier
    rng = random.Random(run.seed)
    n_gen = 250 if tier == "quick" else 4000
    cap = 300 if tier == "quick" else 600
    items = lattice.prec_lattice(tier) + ktree.generate(run.seed, n_gen)
    cases = []
    total = 0
    competing = 0
    for k, it in enumerate(items):
        case, n = evalcheck.build_case(run, it, random.Random("%d/%d" % (run.seed, k)), cap)
        cases.append(case)
        total += n
    run.add("evaluations", total)
    bs = 400
    nm = 0
    for b in range(0, len(cases), bs):
        batch = cases[b : b + bs]
        res, mism = evalcheck.run_batch(run, batch, "b%d" % b, invariants=invariants)
        if res.violated or not res.ok:
            from ..common import MachineryFailure
            from ..tlc import format_trace

            fails = [ln for ln in res.out.splitlines() if ln.startswith('<<"F"')]
            raise MachineryFailure("KEval model: %s %s\n%s\n%s" % (res.violated, fails[:3], format_trace(res)[:3000], (res.error or "")[:2000]))
        run.add("states", res.distinct)
        run.add("transitions", res.generated)
        report_mismatches(run, batch, [(k, t, i, d) for k, t, i, d in mism], "")
        nm += len(mism)
    run.cov["traces_validated_against_impl"] = total - nm
    # non-trivial: configurations in which at least one option has a user value
    nontriv = 0
    for case in cases:
        tot = 1
        triv = 1
        for v in case["vars"]:
            tot *= len(v["cands"])
        nontriv += tot - 1
    run.cov["distinct_nontrivial"] = nontriv
    run.cov["programs"] = len(cases)
    run.cov["exhaustive"] = True
    run.cov["rule"] = (
        "programs = precedence/nesting lattice (every combination of the rule's inputs at small size) + seeded generated "
        "well-formed programs (<= 6 options: nested menus/ifs/choices, bool/int/hex/string, conditional prompts, defaults, "
        "ranges, select/imply, set/set default); per program ALL assignments over 2-3 candidate user values per option and "
        "all picks per choice, enumerated by TLC; non-trivial = at least one user value or pick is present" + extra_rule
    )
    run.sample({"kconfig": cases[0]["text"], "variables": cases[0]["vars"]})
    run.sample({"kconfig": cases[-1]["text"], "variables": cases[-1]["vars"]})
    run.assumptions += [
        "numeric meaning of literals comes from tables generated with Python's int() over the literal universe, not from the library",
        "the real instance is reset with unset_value() on every option and choice and _invalidate_all() before each assignment (cache coherence is C03)",
        "well-formed excludes: select/imply onto choice members, defaults on members, option-valued set onto int/hex, untyped options, option env",
    ]

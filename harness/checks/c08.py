"""C08 — inferred values stay inferred; user values stay user values.

spec/KStore.tla LoadP models loading under a defaults policy (default-marked
entries never become user values; on a mismatch with the tree's value the
option is recorded and, under policy sdkconfig, the stored value is injected
as the option's only default).  Cases: a file written by the real tool under
an OLD program in some configuration, loaded into a fresh instance of a NEW
program (identical, or differing by one mutation: default literal, default
condition, range, prompt condition / prompt removed, option added or removed)
under policy sdkconfig or kconfig, followed by edits.  TLC (MC_Policy.tla)
compares the specification with the real instance at every step and evaluates
both clauses of the property on model and observations."""
import copy
import json
import os
import random

from .. import evalcheck, histcheck, kc, ktree, lattice, storecheck
from ..common import MachineryFailure
from ..tlc import extract_tuples, run_tlc

Y = ["y"]


def find(prog, name):
    for e in ktree.walk(prog):
        if e["k"] == "config" and e["name"] == name:
            return e
    return None


def remove(entries, name):
    for k, e in enumerate(entries):
        if e["k"] == "config" and e["name"] == name:
            del entries[k]
            return True
        if "children" in e and remove(e["children"], name):
            return True
    return False


def referenced(prog, name):
    return name in ktree.strings_of([e for e in ktree.walk(prog) if not (e["k"] == "config" and e["name"] == name)], set())


ALT = {"int": ["3", "7", "10"], "hex": ["0x3", "0x7", "0x1F"], "string": ["newdef", "y", "zz"], "float": ["3.25", "7.5"]}


def mutations(item, rng):
    """(label, focus option, new item) — one change each."""
    prog, order = item["prog"], item["ord"]
    info = ktree.sym_info(prog)
    out = [("same", "", item)]
    names = [n for n in info if not info[n]["choice"]]
    rng.shuffle(names)
    for n in names[:4]:
        e = find(prog, n)
        t = info[n]["type"]
        # default literal
        p = copy.deepcopy(prog)
        en = find(p, n)
        if en["defaults"]:
            d = en["defaults"][-1]
            if t == "bool":
                d["v"] = ["n"] if d["v"] == ["y"] else ["y"]
            else:
                cur = d["v"][1] if d["v"][0] == "c" else None
                d["v"] = ["c", [a for a in ALT[t] if a != cur][0]]
            out.append(("default-literal", n, {"prog": p, "ord": order}))
        elif t == "bool":
            en["defaults"].append({"v": ["y"], "c": Y})
            out.append(("default-added", n, {"prog": p, "ord": order}))
        # default condition negated
        if e["defaults"] and e["defaults"][0]["c"] != Y:
            p = copy.deepcopy(prog)
            en = find(p, n)
            en["defaults"][0]["c"] = ["!", en["defaults"][0]["c"]]
            out.append(("default-cond", n, {"prog": p, "ord": order}))
        # range narrowed / added
        if t in ("int", "hex"):
            p = copy.deepcopy(prog)
            en = find(p, n)
            lo, hi = ("1", "4") if t == "int" else ("0x1", "0x4")
            en["ranges"].insert(0, {"lo": ["c", lo], "hi": ["c", hi], "c": Y})
            out.append(("range", n, {"prog": p, "ord": order}))
        # prompt removed (the option becomes promptless)
        if e["prompt"]:
            p = copy.deepcopy(prog)
            find(p, n)["prompt"] = []
            out.append(("prompt-removed", n, {"prog": p, "ord": order}))
        # option removed (if nobody mentions it)
        if not referenced(prog, n):
            p = copy.deepcopy(prog)
            remove(p, n)
            out.append(("removed", n, {"prog": p, "ord": [o for o in order if o[1] != n]}))
    # option added
    p = copy.deepcopy(prog)
    p.append(ktree.mk_config("NEWOPT", "bool", prompt=Y, defaults=[{"v": ["y"], "c": Y}]))
    out.append(("added", "NEWOPT", {"prog": p, "ord": order + [["s", "NEWOPT"]]}))
    # choice default changed
    for cid in ktree.choice_ids(prog)[:1]:
        p = copy.deepcopy(prog)
        for e in ktree.walk(p):
            if e["k"] == "choice" and e["id"] == cid:
                mem = ktree.members(p, cid)
                e["defaults"].insert(0, {"m": mem[-1], "c": Y})
        out.append(("choice-default", cid, {"prog": p, "ord": order}))
    return out


def colliding_bases(bases):
    """Old programs whose stored default will be a literal that looks like something else: a hex default spelled
    like the name of another option of the program (D, B1 ...), a string default "y" / "n"."""
    import re

    out = []
    for base in bases:
        info = ktree.sym_info(base["prog"])
        hexnames = [n for n in info if re.fullmatch(r"[0-9A-F]+", n)]
        p = copy.deepcopy(base["prog"])
        changed = False
        for e in ktree.walk(p):
            if e["k"] != "config" or not e["defaults"] or not e["prompt"]:
                continue
            d = e["defaults"][-1]
            if e["type"] == "hex" and d["v"][0] == "c" and [h for h in hexnames if h != e["name"]] and not e["ranges"]:
                d["v"] = ["c", [h for h in hexnames if h != e["name"]][0]]
                changed = True
            elif e["type"] == "string" and d["v"][0] == "c":
                d["v"] = ["c", "y" if len(out) % 2 == 0 else "n"]
                changed = True
        if changed:
            out.append(dict(base, prog=p, vars=None))
    return out


def pair_bases():
    """Two defaults changed at once: an option X whose stored default is compared while what decides X's visibility
    (an option defined after X / a choice) still awaits the resolution of its own stored default."""
    S = lambda n: ["s", n]  # noqa: E731
    C = lambda v: ["c", v]  # noqa: E731
    mk = ktree.mk_config
    out = []
    for fwd in (1, 0):
        for dd_new in (["n"], ["y"]):
            def prog(xd, dd):
                x = mk("X", "int", prompt=Y, dep=S("D"), defaults=[{"v": C(xd), "c": Y}])
                d = mk("D", "bool", prompt=Y, defaults=[{"v": dd, "c": Y}])
                z = mk("Z", "int", prompt=Y, defaults=[{"v": C(xd), "c": Y}])
                return [x, d, z] if fwd else [d, x, z]
            order = [["s", "D"], ["s", "X"], ["s", "Z"]]
            vars_ = [{"n": "D", "kind": "sym", "cands": [ktree.NOVAL, "y"]}]
            base = {"prog": prog("1", ["y"]), "ord": order, "vars": vars_, "family": "F-pairs"}
            base["mutations"] = [("same", "", base), ("two-defaults", "X", {"prog": prog("2", dd_new), "ord": order})]
            out.append(base)
    # an option defined in two places under different dependencies, only one of which holds: the stored default is
    # kept wherever the option is there at all
    for which in (0, 1):
        def prog(xd):
            d1 = mk("X", "int", prompt=Y, dep=S("A"), defaults=[{"v": C(xd), "c": Y}])
            d2 = mk("X", "int", prompt=Y, dep=S("B"), defaults=[])
            a = mk("A", "bool", prompt=Y, defaults=[{"v": ["y"] if which == 0 else ["n"], "c": Y}])
            b = mk("B", "bool", prompt=Y, defaults=[{"v": ["n"] if which == 0 else ["y"], "c": Y}])
            return [a, b, d1, mk("Z", "int", prompt=Y, defaults=[{"v": C(xd), "c": Y}]), d2]
        order = [["s", "A"], ["s", "B"], ["s", "X"], ["s", "Z"]]
        vars_ = [{"n": "A", "kind": "sym", "cands": [ktree.NOVAL]}]
        base = {"prog": prog("1"), "ord": order, "vars": vars_, "family": "F-pairs"}
        base["mutations"] = [("same", "", base), ("default-literal", "X", {"prog": prog("2"), "ord": order})]
        out.append(base)
    for fwd in (1, 0):
        def prog(xd, chd):
            x = mk("XC", "int", prompt=Y, dep=S("M1"), defaults=[{"v": C(xd), "c": Y}])
            ch = {"k": "choice", "id": "CH", "title": "ch", "prompt": [Y], "dep": Y, "defaults": [{"m": chd, "c": Y}],
                  "children": [mk("M1", "bool", prompt=Y), mk("M2", "bool", prompt=Y)]}
            return [x, ch] if fwd else [ch, x]
        order = [["ch", "CH"], ["s", "M1"], ["s", "M2"], ["s", "XC"]]
        vars_ = [{"n": "CH", "kind": "choice", "cands": [ktree.NOVAL, "M1"]}]
        base = {"prog": prog("1", "M1"), "ord": order, "vars": vars_, "family": "F-pairs"}
        base["mutations"] = [("same", "", base), ("two-defaults", "XC", {"prog": prog("2", "M2"), "ord": order})]
        out.append(base)
    return out


def marks(kconf, names, info):
    out = []
    for n in names:
        s = kconf.syms[n]
        _, marked = evalcheck.line_of(s, info[n]["type"])
        out.append("-" if not s.config_string else ("d" if marked else "u"))
    return out


def diag_names(kconf):
    out = []
    for d in storecheck.report_quiet(kconf):
        if d.startswith("default-mismatch:changed_defaults:") or d.startswith("default-mismatch:changed_choices:"):
            out.append(d.split(":")[-1])
    return out


def run_session(run, text, file_text, policy, edits, names, info, cids_by_name):
    k = kc.build(text, run.scratch, policy=policy)
    p = os.path.join(run.scratch, "c08_sdkconfig")
    kc.write_text(p, file_text)
    k.load_config(p)
    diag = diag_names(k)
    vals0 = [k.syms[n].str_value for n in names]
    m0 = marks(k, names, info)
    steps = []
    for act in edits:
        histcheck.do_action(k, act, [], run.scratch)
        steps.append([k.syms[n].str_value for n in names])
    kc.reset_report(k)
    return vals0, m0, diag, steps


def edit_sequences(prog, rng, n_seq):
    info = ktree.sym_info(prog)
    vars_ = ktree.user_candidates(prog, rng, 10**6)
    acts = []
    for v in vars_:
        if v["kind"] == "sym":
            c = [x for x in v["cands"] if x != ktree.NOVAL]
            if c:
                acts.append({"a": "set", "n": v["n"], "v": rng.choice(c)})
            acts.append({"a": "unset", "n": v["n"]})
        else:
            mem = ktree.members(prog, v["n"])
            acts.append({"a": "set", "n": rng.choice(mem), "v": "y"})
    # options mentioned in somebody's condition: flipping them moves dependencies of others
    mentioned = set()
    for e in ktree.walk(prog):
        mentioned |= ktree.strings_of({k: v for k, v in e.items() if k not in ("name", "children", "k", "type", "title", "id")}, set())
    gates = [a for a in acts if a["a"] == "set" and a["n"] in mentioned and info[a["n"]]["type"] == "bool"]
    for g in gates:
        g["v"] = "n"
    seqs = [[]]
    for k in range(n_seq):
        seq = [rng.choice(acts) for _ in range(rng.choice([1, 2]))]
        if gates and k % 2 == 0:
            seq = [rng.choice(gates)] + seq[:1]
        seqs.append(seq)
    return seqs


def spec_lines(parsed, info):
    return [{"n": n, "v": v, "d": bool(d), "u": bool(info.get(n, {}).get("type") == "bool" and v == "n")} for n, v, d in parsed]


def main(run):
    tier = run.tier
    rng = random.Random(run.seed)
    lat = [p for p in lattice.prec_lattice(tier) if p["family"] in ("F-prec", "F-choice", "F-nest")]
    reg = [p for p in lattice.regress_lattice()]
    # options defined in two places under different dependencies (F-multidef): int / bool with a prompt somewhere
    reg += [p for p in lattice.multidef_lattice() if p["point"]["type"] in ("int", "bool") and (p["point"]["prompt1"] or p["point"]["prompt2"]) and not p["point"]["select"]][::3]
    if tier == "quick":
        bases = reg + pair_bases() + lat[::14] + ktree.generate(run.seed + 2100, 14)
        n_states, n_seq = 3, 2
        bases += colliding_bases(lat[::6] + ktree.generate(run.seed + 2100, 60))[:12]
    else:
        bases = reg + pair_bases() + lat[::2] + ktree.generate(run.seed + 2100, 300)
        n_states, n_seq = 6, 3
        bases += colliding_bases(bases)
    progs = []
    total = 0
    for bi, base in enumerate(bases):
        brng = random.Random("%d/p%d" % (run.seed, bi))
        old_text = ktree.render(base["prog"])
        old_info = ktree.sym_info(base["prog"])
        old_vars = base.get("vars") or ktree.user_candidates(base["prog"], brng, 10**6)
        asgs = list(ktree.assignments(storecheck_trim(old_vars, 60)))
        brng.shuffle(asgs)
        asgs = asgs[:n_states]
        # files written by the real tool under the old tree
        kold = kc.build(old_text, run.scratch)
        files = []
        for asg in asgs:
            evalcheck.apply_assignment(kold, old_info, old_vars, asg)
            p = os.path.join(run.scratch, "c08_old")
            kold.write_config(p, save_old=False)
            with open(p, newline="") as f:
                files.append((asg, f.read()))
        kc.reset_report(kold)
        for label, focus, new in base.get("mutations") or mutations(base, brng):
            text = ktree.render(new["prog"])
            info = ktree.sym_info(new["prog"])
            names = ktree.sym_names(new["prog"])
            cases = []
            for asg, ftext in files:
                parsed = storecheck.parse_sdkconfig(ftext, old_info)
                stripped = "".join(_strip_marked(ftext))
                promptless = {n for n, i in info.items() if not i["prompt"]}
                nopl = "".join(_strip_marked(ftext, only=promptless))
                for policy in ("sdkconfig", "kconfig"):
                    for edits in edit_sequences(new["prog"], random.Random("%d/e%d%s" % (run.seed, bi, label)), n_seq):
                        case = {
                            "file": spec_lines(parsed, old_info),
                            "policy": policy,
                            "edits": edits,
                            "same": label == "same",
                            "focus": focus if focus in info else "",
                            "err": False,
                            "obs": {"vals0": [], "marks0": [], "diag": [], "steps": [], "vals0_stripped": [], "steps_stripped": [], "vals0_nopl": []},
                            "meta": {"label": label, "focus": focus, "old_assignment": asg},
                        }
                        try:
                            v0, m0, dg, st = run_session(run, text, ftext, policy, edits, names, info, None)
                            v0s, _, _, sts = run_session(run, text, stripped, policy, edits, names, info, None)
                            v0n = run_session(run, text, nopl, policy, [], names, info, None)[0] if nopl != ftext else v0
                            case["obs"] = {"vals0": v0, "marks0": m0, "diag": dg, "steps": st, "vals0_stripped": v0s, "steps_stripped": sts, "vals0_nopl": v0n}
                        except Exception as e:
                            case["err"] = True
                            run.report(
                                "the implementation raised %s: %s loading a %s-tree file under policy %s" % (type(e).__name__, str(e)[:200], label, policy),
                                {"kconfig_old": old_text, "kconfig_new": text, "file": ftext, "policy": policy, "edits": edits, "exception": "%s: %s" % (type(e).__name__, str(e)[:300])},
                                {"exception", type(e).__name__},
                            )
                        case["file_text"] = ftext
                        cases.append(case)
                        total += 1
            progs.append({"prog": new["prog"], "ord": new["ord"], "cases": cases, "text": text, "old_text": old_text})
    run.add("evaluations", total)
    bad = set()
    design = {}
    for b in range(0, len(progs), 120):
        batch = progs[b : b + 120]
        strings = set()
        for p in batch:
            ktree.strings_of(p["prog"], strings)
            ktree.strings_of([{k: v for k, v in c.items() if k not in ("meta", "file_text")} for c in p["cases"]], strings)
        tab = ktree.tables(strings)
        path = run.sub("pol_%d.json" % b)
        with open(path, "w") as f:
            json.dump({"tab": tab, "progs": [{"prog": p["prog"], "ord": p["ord"], "cases": [{k: v for k, v in c.items() if k not in ("meta", "file_text")} for c in p["cases"]]} for p in batch]}, f)
        res = run_tlc("MC_Policy", "MC_Policy.cfg", run, env={"POL_DATA": path}, workers=16, timeout=3000, tag="pol%d" % b)
        os.unlink(path)
        if res.violated or not res.ok:
            raise MachineryFailure("MC_Policy: %s\n%s" % (res.violated, (res.error or res.out[-2500:])[:3000]))
        run.add("states", res.distinct)
        run.add("transitions", res.generated)
        for v in extract_tuples(res.out, "D-|R-|P-"):
            tag, t, i, a, bb = v[0], v[1], v[2], v[3], v[4]
            p = batch[t - 1]
            case = p["cases"][i - 1]
            if tag.startswith("D-"):
                design[tag] = design.get(tag, 0) + 1
                continue
            bad.add((b + t, i))
            run.report(
                "%s (%s, focus %s, policy %s, edits %s): %s vs %s" % (tag, case["meta"]["label"], case["meta"]["focus"], case["policy"], case["edits"], a, bb),
                {"kconfig_old": p["old_text"], "kconfig_new": p["text"], "file": case["file_text"], "policy": case["policy"], "edits": case["edits"], "clause": tag, "expected": a, "observed": bb, "meta": case["meta"]},
                {tag, case["meta"]["label"]} | order_tags(p["prog"], tag, a, bb),
            )
    run.cov["traces_validated_against_impl"] = total - len(bad)
    run.cov["design_level_counterexamples"] = design
    run.cov["distinct_nontrivial"] = sum(1 for p in progs for c in p["cases"] if any(ln["d"] for ln in c["file"]))
    run.cov["programs"] = len(progs)
    run.cov["exhaustive"] = False
    run.cov["rule"] = (
        "bases = lattice slices + generated programs; per base a few reachable configurations are written by the real tool; each file is "
        "loaded into a fresh instance of the same program and of every single-mutation variant (default literal, default condition, "
        "range, prompt removed, option removed / added, choice default) under policies sdkconfig and kconfig, followed by seeded edit "
        "sequences (<= 2 edits), and again with the default-marked entries stripped; non-trivial = the file has default-marked entries"
    )
    ex = progs[1]["cases"][0] if len(progs) > 1 and progs[1]["cases"] else progs[0]["cases"][0]
    run.sample({"kconfig_new": progs[1]["text"] if len(progs) > 1 else progs[0]["text"], "file": ex["file_text"], "policy": ex["policy"], "edits": ex["edits"], "observed": ex["obs"], "meta": ex["meta"]})
    run.assumptions += [
        "the interactive policy is excluded (as in the property)",
        "which mismatches are reported is compared only for the option whose own definition was mutated",
        "a stored default outside the new active range is left open (kept-if-in-range is all that is required)",
    ]


def order_tags(prog, tag, a, b):
    """Mechanism tag of the open finding C08-resolution-order: every option on which specification and
    implementation differ is read by a reverse property (select / imply / set / set default: its target, or an
    option its condition mentions) of an option which that option's own value depends on the other way round, so
    the loader compared its stored default before the other option's stored default had been resolved."""
    if tag not in ("R-load", "R-edits", "R-reported", "R-marks"):
        return set()
    names = ktree.sym_names(prog)

    def flat(x):
        return flat(x[0]) + flat(x[-1]) if x and isinstance(x[0], list) and isinstance(x[0][0] if x[0] else None, list) else x

    rows_a = a if a and isinstance(a[0], list) else [a]
    rows_b = b if b and isinstance(b[0], list) else [b]
    diff = set()
    for ra, rb in zip(rows_a, rows_b):
        if isinstance(ra, list) and isinstance(rb, list) and len(ra) == len(rb) == len(names):
            diff |= {names[k] for k in range(len(names)) if ra[k] != rb[k]}
    if not diff:
        return set()
    read_by_rev = {}
    for e in ktree.walk(prog):
        if e["k"] != "config":
            continue
        for field in ("selects", "implies", "sets", "wsets"):
            for r in e[field]:
                for n in {r["t"]} | ktree.strings_of(r["c"], set()):
                    read_by_rev.setdefault(n, set()).add(e["name"])

    def mentions(entry_name):
        out = set()
        for e in ktree.walk(prog):
            if e["k"] == "config" and e["name"] == entry_name:
                out |= ktree.strings_of({k: v for k, v in e.items() if k in ("prompt", "dep", "defaults", "ranges")}, set())
        return out

    ok = all(any(y in mentions(d) or d in {r["t"] for e in ktree.walk(prog) if e["k"] == "config" and e["name"] == y for f in ("sets", "wsets", "selects", "implies") for r in e[f]} for y in read_by_rev.get(d, ())) for d in diff)
    return {"resolution-order-reverse-property"} if ok else set()


def _strip_marked(text, only=None):
    """The file without its default-marked entries (or only those of the options in `only`)."""
    import re

    lines = text.split("\n")
    out = []
    k = 0
    while k < len(lines):
        ln = lines[k]
        if ln.strip() == "# default:" and k + 1 < len(lines):
            nxt = lines[k + 1]
            m = re.match(r"(?:# )?CONFIG_(\w+)(?:=| is not set)", nxt)
            if m and (only is None or m.group(1) in only):
                k += 2
                continue
        out.append(ln + "\n")
        k += 1
    return out


def storecheck_trim(vars_, cap):
    from .c07 import storecheck_trim as f

    return f(vars_, cap)

"""C02 — saving and reloading a configuration is a fixpoint.

spec/KStore.tla gives Render (what is written, with `# default:` markers) and
Load (how a file becomes user values and picks); MC_Store.tla enumerates every
configuration of every program, checks the round trip on the model and compares
with what the real write_config / load_config / write_config produced."""
from .. import gencheck, ktree, lattice, storemain

WANT = {"R-render", "R-reload", "R-rerender", "P-RtValues", "P-RtLines", "P-RtBytes", "P-RtQuiet"}


def main(run):
    storemain.run_store(
        run,
        WANT,
        "programs = precedence/nesting/choice lattices + seeded generated programs; per program all assignments over the candidate "
        "user values (capped); each configuration is written, loaded into a fresh instance, written again; non-trivial = at least "
        "one user value or pick present; clauses: values equal, assignments equal, bytes equal, no default-mismatch / "
        "multiple-assignment / unknown-symbol diagnostics",
    )
    # the same fixpoint through the command line: kconfgen main() with --defaults files merged in front of the sdkconfig
    lat = lattice.prec_lattice(run.tier)
    items = [p for k, p in enumerate(lat) if k % (40 if run.tier == "quick" else 4) == 0 or p["family"] == "F-regress"] + ktree.generate(run.seed + 1900, 25 if run.tier == "quick" else 600)
    n, bad = gencheck.main(run, items)
    run.cov["traces_validated_against_impl"] += n - bad
    run.cov["distinct_nontrivial"] += n
    run.cov["rule"] += (
        "; kconfgen: per program 4 lists of --defaults files (none, one, two with a contradicting line, another one; bare, 'is not set', "
        "empty right-hand side and indented lines) x sdkconfig absent / written by the previous run (fixpoint: nothing rewritten, nothing "
        "reported) / written under other defaults files, both policies; the written configuration is compared with KStore.GenRun"
    )
    run.assumptions += [
        "kconfgen is run in-process through its click callback with --output config pointing at the sdkconfig itself",
        "reachable configurations are represented by their user values and picks (any such state is reachable by set operations); histories through loads/merges are explored by C08/C16",
        "string escaping is exercised through the literals of the universe (quotes, backslashes, '#', spaces)",
    ]

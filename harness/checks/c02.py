"""C02 — saving and reloading a configuration is a fixpoint.

spec/KStore.tla gives Render (what is written, with `# default:` markers) and
Load (how a file becomes user values and picks); MC_Store.tla enumerates every
configuration of every program, checks the round trip on the model and compares
with what the real write_config / load_config / write_config produced."""
from .. import storemain

WANT = {"R-render", "R-reload", "R-rerender", "P-RtValues", "P-RtLines", "P-RtBytes", "P-RtQuiet"}


def main(run):
    storemain.run_store(
        run,
        WANT,
        "programs = precedence/nesting/choice lattices + seeded generated programs; per program all assignments over the candidate "
        "user values (capped); each configuration is written, loaded into a fresh instance, written again; non-trivial = at least "
        "one user value or pick present; clauses: values equal, assignments equal, bytes equal, no default-mismatch / "
        "multiple-assignment / unknown-symbol diagnostics",
    )
    run.assumptions += [
        "reachable configurations are represented by their user values and picks (any such state is reachable by set operations); histories through loads/merges are explored by C08/C16",
        "string escaping is exercised through the literals of the universe (quotes, backslashes, '#', spaces)",
    ]

"""C06 — every emitted value is well-formed for its type and inside its range.

KEval/KStore give the value of every numeric option (range lookup, user value
accepted only when it is of the type's lexical class and in range, clamp) with
the property's own notion of a well-formed number (tables built from the
literal universe).  TLC enumerates every configuration of the numeric lattice
with user values from the whole literal universe (malformed, negative, huge,
differently formatted), arriving through set_value and through an sdkconfig
file, checks WellTyped / InRange on the model, compares with the implementation
and checks that header, CMake and JSON carry the same number (hex with 0x)."""
import random

from .. import evalcheck, ktree, lattice
from ..common import MachineryFailure
from . import c01


def main(run):
    tier = run.tier
    items = lattice.numeric_lattice(tier)
    # the same numeric option under menus / ifs (dependencies, `visible if`) that are off: a range applies wherever the
    # option sits, shown or not
    items += [it for it in lattice.nest_lattice() if it["point"]["type"] != "bool"]
    gen = ktree.generate(run.seed + 77, 60 if tier == "quick" else 1500)
    extra = set()
    for v in lattice.WIDE_USERS.values():
        extra.update(v)
    tab = evalcheck.batch_tables(items + gen, extra)
    cases, total = [], 0
    for path in ("set", "file"):
        for k, it in enumerate(items):
            case, n = evalcheck.build_case(run, it, random.Random("%d/n%d" % (run.seed, k)), 10**9, path=path, with_outs=True, tab=tab)
            cases.append(case)
            total += n
    for k, it in enumerate(gen):
        case, n = evalcheck.build_case(run, it, random.Random("%d/g%d" % (run.seed, k)), 150, with_outs=True, tab=tab)
        cases.append(case)
        total += n
    run.add("evaluations", total)
    nm = 0
    for b in range(0, len(cases), 200):
        batch = cases[b : b + 200]
        # one table for the whole run: float ranks recorded by the format readers and those TLC uses must agree
        res, mism = evalcheck.run_batch(run, batch, "n%d" % b, invariants=("All",), tab=tab)
        if res.violated or not res.ok:
            fails = [ln for ln in res.out.splitlines() if ln.startswith('<<"F"')]
            raise MachineryFailure("KEval model: %s %s\n%s" % (res.violated, fails[:3], (res.error or res.out[-2000:])[:2500]))
        run.add("states", res.distinct)
        run.add("transitions", res.generated)
        plain = [m for m in mism if m[0] != "O"]
        c01.report_mismatches(run, batch, plain, "")
        for kind, t, i, outs in mism:
            if kind != "O":
                continue
            case = batch[t - 1]
            asg = evalcheck.case_at(case, i)
            tags = {"RenderConsistent"}
            obs = case["obs"][i - 1]
            names = ktree.sym_names(case["prog"])
            info = ktree.sym_info(case["prog"])
            detail = []
            for k_, n_ in enumerate(names):
                if info[n_]["type"] in ("int", "hex", "float"):
                    detail.append({"option": n_, "value": obs[k_][0], "header/0x/cmake/0x/json": outs[k_]})
                    val = obs[k_][0]
                    import re

                    if info[n_]["type"] == "int" and re.fullmatch(r"-?0[0-9]+", val or ""):
                        tags.add("leading-zero")
            run.report(
                "generators disagree on the number carried for %s (path %s): %s" % ({k: v for k, v in asg.items() if v != ktree.NOVAL}, case["path"], detail),
                {"kconfig": case["text"], "assignment": asg, "path": case["path"], "outputs": detail},
                tags,
            )
        nm += len(mism)
    run.cov["traces_validated_against_impl"] = total - nm
    run.cov["distinct_nontrivial"] = total - len(cases)
    run.cov["programs"] = len(cases)
    run.cov["exhaustive"] = True
    run.cov["rule"] = (
        "numeric lattice (int/hex/float target x prompt x set x set default x defaults x range kind) with user values from the whole "
        "literal universe " + str(lattice.WIDE_USERS) + ", each applied through set_value and through an sdkconfig file, plus generated "
        "programs; all assignments enumerated by TLC; header/CMake/JSON read back by format readers; non-trivial = a user value present"
    )
    run.sample({"kconfig": cases[0]["text"], "variables": cases[0]["vars"]})
    run.sample({"kconfig": cases[-1]["text"], "variables": cases[-1]["vars"]})
    run.assumptions += [
        "well-formed numbers are: int = optional '-' and decimal digits; hex = optional 0x/0X and hex digits, non-negative; float = decimal/exponent notation, finite",
        "a header token is read as a C literal (leading 0 = octal), CMake and JSON tokens as decimal / 0x-hex / JSON numbers",
        "numbers are below 2^31 (TLC integers); floats are compared by rank in the table of the literal universe",
    ]

"""C14 — the config server's incremental replies keep a client exactly in sync.

spec/KServer.tla: channels of a configuration, Diff / Merge, request handling
(load, multi-pass set, reset of options / menus / all, save, path tracking).
Request sequences over a per-program alphabet are run against the real
run_server() in-process; TLC (MC_Server.tla) computes the specification's reply
for every request, compares it with the observed reply, evaluates InSync on
the model after every request, merges the observed replies into an observed
client and compares it with the initial message of a fresh server started on
the file written by the final save (InSync on observations + SaveFaithful)."""
import itertools
import json
import os
import random

from .. import evalcheck, kc, ktree, lattice, servercheck, storecheck
from ..common import MachineryFailure
from ..tlc import extract_tuples, run_tlc


def req(ver=3, load=-1, set_=(), reset=(), save=-1):
    return {"ver": ver, "load": load, "set": [list(x) for x in set_], "reset": list(reset), "save": save}


def jv_for(typ, val):
    if typ == "bool":
        return ["b", val]
    if typ == "int":
        return ["i", val] if val.lstrip("-").isdigit() else ["s", val]
    if typ == "hex":
        return ["s", val[2:] if val.lower().startswith("0x") else val]
    if typ == "float":
        return ["f", val]
    return ["s", val]


def alphabet(item, rng, ver):
    prog = item["prog"]
    info = ktree.sym_info(prog)
    vars_ = item.get("vars") or ktree.user_candidates(prog, rng, 10**6)
    reqs = []
    sets = []
    for v in vars_:
        if v["kind"] == "sym":
            t = info[v["n"]]["type"]
            for val in [c for c in v["cands"] if c != ktree.NOVAL][:2]:
                if t == "string" or val.strip() == val and val != "":
                    sets.append((v["n"], jv_for(t, val)))
        else:
            for m in ktree.members(prog, v["n"])[:2]:
                sets.append((m, ["b", "y"]))
    for s in sets:
        reqs.append(req(ver, set_=[s]))
    for a, b in list(itertools.combinations(sets, 2))[:6]:
        if a[0] != b[0]:
            reqs.append(req(ver, set_=[a, b]))
            reqs.append(req(ver, set_=[b, a]))
    reqs.append(req(ver, set_=[("NO_SUCH_OPTION", ["b", "y"])] + sets[:1]))
    names = [v["n"] for v in vars_ if v["kind"] == "sym"]
    if ver >= 3:
        for n in names[:3]:
            reqs.append(req(ver, reset=[n]))
        reqs.append(req(ver, reset=["all"]))
        reqs.append(req(ver, reset=["NO_SUCH_OPTION"] + names[:1]))
        for mid in list(servercheck.menu_contents(prog))[:2]:
            reqs.append(req(ver, reset=[mid]))
        reqs.append(req(ver, reset=["no-such-menu-1"]))
    else:
        reqs.append(req(ver, reset=names[:1]))
    reqs.append(req(ver, load=0))
    reqs.append(req(ver, load=2))
    reqs.append(req(ver, save=0))
    reqs.append(req(ver, save=3, set_=sets[:1]))
    reqs.append(req(ver, load=3))
    # load and save in one request (the order inside a request is load, set, reset, save; `null` is the last used file)
    reqs.append(req(ver, load=2, save=0))
    reqs.append(req(ver, load=2, save=0, set_=sets[:1]))
    reqs.append(req(ver, load=0, save=3, set_=sets[-1:]))
    reqs.append(req(ver, load=3, save=0, set_=sets[:1]))
    return reqs


def real_process_initial(run, it):
    """The command line: `python -m kconfserver --version N` must start the conversation in protocol version N
    (the in-process runs hand the version to run_server() directly and never pass through main())."""
    import subprocess
    import sys

    from ..common import REPO

    d = run.sub("srv_cli")
    os.makedirs(d, exist_ok=True)
    text = ktree.render(it["prog"])
    kpath = kc.write_text(os.path.join(d, "Kconfig"), text)
    sdk = kc.write_text(os.path.join(d, "sdkconfig"), "")
    env = dict(os.environ, PYTHONPATH=REPO)
    for ver in (1, 2, 3):
        inproc, _, exc = servercheck.run_server_lines(kpath, sdk, ver, [])
        pr = subprocess.run([sys.executable, "-m", "kconfserver", "--kconfig", kpath, "--config", sdk, "--version", str(ver)], input="", capture_output=True, text=True, env=env, cwd=d)
        lines = pr.stdout.splitlines()
        try:
            got = json.loads(lines[0]) if lines else None
            want = json.loads(inproc[0])
        except ValueError:
            got, want = None, {}
        if exc is not None or pr.returncode != 0 or got is None or sorted(got) != sorted(want) or got.get("version") != ver:
            run.report(
                "python -m kconfserver --version %d: the initial message is %s, run_server(default_version=%d) gives %s"
                % (ver, "missing" if got is None else "version %s with keys %s" % (got.get("version"), sorted(got)), ver, "version %s with keys %s" % (want.get("version"), sorted(want))),
                {"kconfig": text, "version": ver, "stdout": lines[:1], "stderr": pr.stderr[-300:]},
                {"R-initial", "command-line-version"},
            )


def main(run):
    tier = run.tier
    rng = random.Random(run.seed)
    lat = [p for p in lattice.prec_lattice(tier) if p["family"] in ("F-prec", "F-choice", "F-nest", "F-edge")]
    if tier == "quick":
        # one program per kind of dependency edge (all of them, with every pair of requests), a stride of the rest
        items = [p for p in lat if p["family"] == "F-edge"] + [p for p in lat if p["family"] != "F-edge"][::16] + ktree.generate(run.seed + 3100, 12)
        per_prog, maxlen = 60, 3
    else:
        items = lat[::2] + ktree.generate(run.seed + 3100, 300)
        per_prog, maxlen = 400, 3
    progs = []
    total = 0
    strings = set()
    plans = []
    for pi, it in enumerate(items):
        prng = random.Random("%d/q%d" % (run.seed, pi))
        seqs = []
        for ver in (3, 2, 1):
            alpha = alphabet(it, prng, ver)
            all_seq = [[a] for a in alpha] + [[a, b] for a in alpha for b in alpha]
            if maxlen >= 3:
                all_seq += [[prng.choice(alpha) for _ in range(3)] for _ in range(per_prog)]
            prng.shuffle(all_seq)
            share = per_prog if ver == 3 else per_prog // 4
            if it.get("family") == "F-edge" and ver == 3:
                pairs = [q for q in all_seq if len(q) <= 2]
                all_seq = pairs + [q for q in all_seq if len(q) > 2]
                share = max(share, len(pairs))
            seqs += [(ver, s) for s in all_seq[:share]]
        plans.append(seqs)
        ktree.strings_of(it["prog"], strings)
        ktree.strings_of(it.get("vars", []), strings)
        ktree.strings_of([s for _, s in seqs], strings)
    tab = ktree.tables(strings)
    for pi, it in enumerate(items):
        prng = random.Random("%d/s%d" % (run.seed, pi))
        prog = it["prog"]
        text = ktree.render(prog)
        info = ktree.sym_info(prog)
        d = run.sub("srv_%d" % pi)
        os.makedirs(d)
        kpath = kc.write_text(os.path.join(d, "Kconfig"), text)
        k = kc.Kconfig(kpath)  # same path as the server's instance: menu ids contain the file name
        kc.reset_report(k)
        ids = servercheck.id_map(k, prog)
        rev_ids = {v: kk for kk, v in ids.items()}
        vars_ = it.get("vars") or ktree.user_candidates(prog, prng, 10**6)
        asgs = list(ktree.assignments(storecheck_trim(vars_, 40)))
        # three files: tool-written defaults, tool-written other configuration, scratch target for saves
        paths = [os.path.join(d, "sdkconfig.%d" % j) for j in (1, 2, 3)]
        files = []
        for j, asg in enumerate([asgs[0], asgs[len(asgs) // 2]]):
            evalcheck.apply_assignment(k, info, vars_, asg)
            k.write_config(paths[j], save_old=False)
            with open(paths[j]) as f:
                files.append(f.read())
        kc.write_text(paths[2], "")
        files.append("")
        kc.reset_report(k)
        menus = servercheck.menu_contents(prog)
        traces = []
        seqs = plans[pi]
        for ver, seq in seqs:
            for j, txt in enumerate(files):
                kc.write_text(paths[j], txt)
            for p in paths:
                if os.path.exists(p + ".old"):
                    os.unlink(p + ".old")
            final = os.path.join(d, "sdkconfig.final")
            seq = [dict(r) for r in seq] + [req(ver, save=4)]
            conc = [servercheck.concrete_request(r, paths + [final], rev_ids) for r in seq]
            lines, err, exc = servercheck.run_server_lines(kpath, paths[0], ver, [json.dumps(c) for c in conc])
            tr = {"start": 1, "ver0": ver, "reqs": seq, "err": False, "initial": None, "replies": [], "fresh": {"present": False}, "disk": []}
            try:
                if exc is not None:
                    raise exc
                msgs = [json.loads(ln) for ln in lines]
                if len(msgs) != len(seq) + 1:
                    raise RuntimeError("expected %d stdout lines, got %d" % (len(seq) + 1, len(msgs)))
                tr["initial"] = servercheck.abstract_message(msgs[0], info, ids, tab)
                tr["replies"] = [servercheck.abstract_message(m, info, ids, tab) for m in msgs[1:]]
                lines2, _, exc2 = servercheck.run_server_lines(kpath, final, 3, [])
                if exc2 is not None:
                    raise exc2
                fr = servercheck.abstract_message(json.loads(lines2[0]), info, ids, tab)
                fr["present"] = True
                tr["fresh"] = fr
                disk = []
                for pth in paths:
                    with open(pth) as f_:
                        disk.append([[n_, v_, bool(d_)] for n_, v_, d_ in storecheck.parse_sdkconfig(f_.read(), info)])
                tr["disk"] = disk
            except BaseException as e:
                tr["err"] = True
                tr["initial"] = tr["initial"] or {"values": {}, "visible": {}, "ranges": {}, "defaults": {}, "error": False, "version": ver}
                tr["fresh"] = {"present": False}
                run.report(
                    "the server failed (%s: %s) on %s" % (type(e).__name__, str(e)[:200], conc),
                    {"kconfig": text, "requests": conc, "stdout": lines[:6], "exception": "%s: %s" % (type(e).__name__, str(e)[:300])},
                    {"server-died", type(e).__name__},
                )
            tr["conc"] = conc
            traces.append(tr)
            total += 1
        # v1 replies carry null for invisible values and no visibility channel: compare values only on visible options
        progs.append({"prog": prog, "ord": it["ord"], "files": [histfile(f, info) for f in files] + [[]], "menus": menus, "traces": traces, "text": text})
    run.add("evaluations", total)
    real_process_initial(run, items[0])
    bad = set()
    design = {}
    for b in range(0, len(progs), 40):
        batch = progs[b : b + 40]
        path = run.sub("srv_%d.json" % b)
        payload = []
        for p in batch:
            trs = []
            for tr in p["traces"]:
                t2 = {k: v for k, v in tr.items() if k != "conc"}
                if tr["ver0"] == 1 or any(r["ver"] == 1 for r in tr["reqs"]):
                    t2 = dict(t2, err=True)  # version 1 sessions are judged by the harness below
                trs.append(t2)
            payload.append({"prog": p["prog"], "ord": p["ord"], "files": p["files"], "menus": p["menus"], "traces": trs})
        with open(path, "w") as f:
            json.dump({"tab": tab, "progs": payload}, f)
        res = run_tlc("MC_Server", "MC_Server.cfg", run, env={"SRV_DATA": path}, workers=16, timeout=3000, tag="srv%d" % b)
        os.unlink(path)
        if res.violated or not res.ok:
            raise MachineryFailure("MC_Server: %s\n%s" % (res.violated, (res.error or res.out[-2500:])[:3000]))
        run.add("states", res.distinct)
        run.add("transitions", res.generated)
        for v in extract_tuples(res.out, "D-|R-|P-"):
            tag, t, i, k_, a, bb = v[0], v[1], v[2], v[3], v[4], v[5]
            p = batch[t - 1]
            tr = p["traces"][i - 1]
            if tag.startswith("D-"):
                design[tag] = design.get(tag, 0) + 1
            bad.add((b + t, i))
            tags = {tag}
            run.report(
                "%s at request %d of %s: %s vs %s" % (tag, k_, tr["conc"], str(a)[:400], str(bb)[:400]),
                {"kconfig": p["text"], "requests": tr["conc"], "clause": tag, "step": k_, "expected": a, "observed": bb, "version0": tr["ver0"]},
                tags,
            )
    # protocol version 1: no visibility channel; a client tracks values, null = invisible
    for p in progs:
        for tr in p["traces"]:
            if tr["err"] or not (tr["ver0"] == 1 or any(r["ver"] == 1 for r in tr["reqs"])):
                continue
            if tr["ver0"] != 1 or not all(r["ver"] == 1 for r in tr["reqs"][:-1]):
                continue
            client = dict(tr["initial"]["values"])
            for rep in tr["replies"][:-1]:
                client.update(rep["values"])
            fr = tr["fresh"]
            if not fr.get("present"):
                continue
            for n, vis in fr["visible"].items():
                if n in fr["values"] and vis and client.get(n) != fr["values"][n]:
                    run.report(
                        "v1 client out of sync on visible option %s: %r vs fresh server %r after %s" % (n, client.get(n), fr["values"][n], tr["conc"]),
                        {"kconfig": p["text"], "requests": tr["conc"], "option": n},
                        {"P-InSyncV1"},
                    )
                    break
    run.cov["traces_validated_against_impl"] = total - len(bad)
    run.cov["design_level_counterexamples"] = design
    run.cov["distinct_nontrivial"] = total
    run.cov["programs"] = len(progs)
    run.cov["exhaustive"] = False
    run.cov["rule"] = (
        "per program: request alphabets (set of one or two options incl. unknown names and invisible targets, reset of options / menu "
        "ids / all / unknown ids, load null / other file, save null / other file, save+set) in protocol versions 3, 2 and 1; all "
        "sequences of length <= 2 plus seeded sequences of length 3 (capped per program), each followed by a save and a fresh server on "
        "the saved file; every session is distinct and non-trivial (at least one request)"
    )
    ex = progs[0]["traces"][0]
    run.sample({"kconfig": progs[0]["text"], "requests": ex["conc"], "initial": ex["initial"], "replies": ex["replies"][:2]})
    run.assumptions += [
        "the server is run in-process through run_server() with substituted stdin/stdout/stderr; an exception escaping it counts as the process dying",
        "menu and comment ids are opaque: their visibility is compared between the observed client and the fresh server only",
        "error reporting is compared as present/absent; message wording is left open",
    ]


def histfile(text, info):
    return [{"n": n, "v": v, "d": bool(d), "u": bool(info.get(n, {}).get("type") == "bool" and v == "n")} for n, v, d in storecheck.parse_sdkconfig(text, info)]


def storecheck_trim(vars_, cap):
    from .c07 import storecheck_trim as f

    return f(vars_, cap)

"""C04 — both parsers accept the same language and build the same configuration.

Programs of the documented grammar (lattices, generated, menu/choice shapes) are
rendered in lexical variants (property order, separate prompt, comments and
blank lines, line continuation, help blocks, tabs, a sub-tree moved into an
rsource'd file, literal values through (re)defined macros) and parsed by the legacy parser and by the pyparsing one.
Both must accept; the finalised trees (entries, order, nesting, types, prompts,
help, every condition) and the sdkconfig / header / JSON outputs must coincide,
across parsers and across variants.  The two trees, abstracted into the
definition records of spec/KEval.tla, are interpreted by TLC (MC_Parse.tla)
under every assignment and must give the configuration the specification's
Flatten of the abstract program gives.  The Kconfig files shipped in the test
fixtures go through the parser-vs-parser comparison."""
import glob
import json
import os
import random

from .. import absx, evalcheck, kc, ktree, lattice
from ..common import MachineryFailure, REPO
from ..tlc import extract_tuples, run_tlc


def build(run, text, extra, version):
    try:
        k = kc.build(text, run.scratch, parser_version=version, extra_files=extra)
        return k, None
    except kc.KconfigError as e:
        return None, "KconfigError: %s" % str(e)[:300]
    except Exception as e:  # anything else is not a rejection, it is a crash
        return None, "CRASH %s: %s" % (type(e).__name__, str(e)[:300])


def outputs(run, k, info, vars_, asgs):
    import kconfgen.core as kg

    out = []
    p = os.path.join(run.scratch, "c04_out")
    for asg in asgs:
        evalcheck.apply_assignment(k, info, vars_, asg)
        k.write_config(p, save_old=False)
        with open(p) as f:
            a = f.read()
        k.write_autoconf(p)
        with open(p) as f:
            b = f.read()
        out.append([a, b, json.dumps(kg.get_json_values(k), sort_keys=True)])
    os.unlink(p)
    kc.reset_report(k)
    return out


def norm_expr(e):
    """Same-operator chains compare equal whatever their nesting (expr_str prints them alike)."""
    if not isinstance(e, list) or not e:
        return e
    if isinstance(e[0], str) and e[0] in ("&&", "||") and len(e) == 3:
        op = e[0]
        items = []

        def collect(x):
            if isinstance(x, list) and x and x[0] == op and len(x) == 3:
                collect(x[1])
                collect(x[2])
            else:
                items.append(norm_expr(x))

        collect(e)
        return [op] + items
    return [norm_expr(x) for x in e]


def norm_defs(defs):
    def walk(x):
        if isinstance(x, dict):
            return {k: walk(v) for k, v in x.items()}
        if isinstance(x, list):
            if x and isinstance(x[0], str) and x[0] in ("&&", "||", "!", "=", "!=", "<", "<=", ">", ">=", "s", "c", "y", "n", "ch"):
                return norm_expr(x)
            return [walk(v) for v in x]
        return x

    return walk(defs)


def odd_tags(diff):
    """Which lexical feature a parser difference is about (mechanism tags for known-finding matching): only
    differences confined to the title of an entry are classified."""
    tags = set()
    try:
        r1, r2 = diff
        # (a mangled title also takes the prompt's condition with it: only kind, name and type have to agree)
        if isinstance(r1, list) and isinstance(r2, list) and len(r1) == len(r2) and r1[:3] == r2[:3]:
            t1, t2 = r1[4], r2[4]
            if isinstance(t1, str) and isinstance(t2, str):
                if "  " in t1 and t2 == " ".join(t1.split()):
                    tags.add("double-space-in-title")
                elif t2 == "" and t1:
                    tags.add("leading-space-in-title")
                elif '"' in t1 and "\\" in t2:
                    tags.add("escaped-quote-in-title")
    except Exception:
        pass
    return tags


def strip_help(shape):
    return [row[:8] + row[9:] for row in shape]


def lex_programs():
    """Expression shapes the generated programs do not contain: a negation in front of a relation (written without
    parentheses in the min-parens variant: a relation binds tighter than `!`), negated relations inside && / ||."""
    S = lambda n: ["s", n]  # noqa: E731
    C = lambda v: ["c", v]  # noqa: E731
    Y = ["y"]
    mk = ktree.mk_config
    ents = [
        mk("B", "int", prompt=Y, defaults=[{"v": C("2"), "c": Y}]),
        mk("S1", "string", prompt=Y, defaults=[{"v": C("x"), "c": Y}]),
        mk("X", "bool", prompt=Y, dep=["!", ["=", S("B"), C("2")]], defaults=[{"v": Y, "c": Y}]),
        mk("Y1", "bool", prompt=["&&", ["!", ["!=", S("B"), C("3")]], S("X")], defaults=[{"v": Y, "c": ["!", ["=", S("S1"), C("x")]]}]),
        mk("Z", "bool", prompt=Y, defaults=[{"v": Y, "c": ["||", ["!", ["<", S("B"), C("5")]], ["!", S("X")]]}]),
        {"k": "menu", "title": "lex", "dep": ["!", [">=", S("B"), C("10")]], "visif": ["!", ["=", S("S1"), C("zz")]], "children": [mk("W", "bool", prompt=Y)]},
    ]
    order = [["s", n] for n in ("B", "S1", "X", "Y1", "Z", "W")]
    vars_ = [{"n": "B", "kind": "sym", "cands": [ktree.NOVAL, "3", "10"]}, {"n": "S1", "kind": "sym", "cands": [ktree.NOVAL, "zz"]}, {"n": "X", "kind": "sym", "cands": [ktree.NOVAL, "n"]}]
    out = [{"prog": ents, "ord": order, "vars": vars_, "family": "F-lex"}]
    # string literals with two blanks in a row / with the word "if" inside (one program each: two open findings)
    for name, lit in (("two-blanks-in-literal", "a  b"), ("if-in-literal", "what if not")):
        e2 = [mk("G", "bool", prompt=Y, defaults=[{"v": Y, "c": Y}]), mk("SL", "string", prompt=Y, defaults=[{"v": C(lit), "c": S("G")}, {"v": C("z"), "c": Y}])]
        out.append({"prog": e2, "ord": [["s", "G"], ["s", "SL"]], "vars": [{"n": "G", "kind": "sym", "cands": [ktree.NOVAL, "n"]}], "family": "F-lex", "lex": name})
    # a literal with an escaped quote followed by '#', a literal ending in an escaped backslash (both with a trailing
    # comment in the inline-comments style), a float with decimals and exponent, an option name that starts with a digit
    e3 = [
        mk("3RD", "bool", prompt=Y, defaults=[{"v": Y, "c": Y}]),
        mk("SQ", "string", prompt=Y, defaults=[{"v": C('a " # b'), "c": S("3RD")}, {"v": C("dir\\"), "c": Y}]),
        mk("SB", "string", prompt=Y, dep=S("3RD"), defaults=[{"v": C("C:\\tmp\\"), "c": ["=", S("SQ"), C("dir\\")]}, {"v": C("'"), "c": Y}]),
        mk("FE", "float", prompt=Y, defaults=[{"v": C("1.5e-6"), "c": S("3RD")}, {"v": C("2e3"), "c": Y}]),
    ]
    out.append({"prog": e3, "ord": [["s", n] for n in ("3RD", "SQ", "SB", "FE")], "vars": [{"n": "3RD", "kind": "sym", "cands": [ktree.NOVAL, "n"]}, {"n": "SQ", "kind": "sym", "cands": [ktree.NOVAL, "x"]}], "family": "F-lex", "lex": "escapes-and-numbers"})
    return out


def main(run):
    tier = run.tier
    rng = random.Random(run.seed)
    from .c17 import nav_programs

    lat = lattice.prec_lattice(tier)
    if tier == "quick":
        items = [p for k, p in enumerate(lat) if p["family"] in ("F-edge", "F-setsym", "F-regress") or k % 12 == 0] + nav_programs() + lex_programs() + ktree.generate(run.seed + 6100, 40)
        styles = ["separate-prompt+shuffle", "comments", "continuation", "everything", "macros", "macros+rsource", "split-and", "min-parens", "two-prompts", "odd-text", "inline-comments"]
        cap = 24
    else:
        items = lat[::2] + nav_programs() + lex_programs() + ktree.generate(run.seed + 6100, 1500)
        styles = [s for s in ktree.STYLES if s != "canonical"]
        cap = 80
    payload = []
    total = 0
    nvar = 0
    for pi, it in enumerate(items):
        prng = random.Random("%d/p%d" % (run.seed, pi))
        prog = it["prog"]
        info = ktree.sym_info(prog)
        vars_ = it.get("vars") or ktree.user_candidates(prog, prng, cap)
        from .c07 import storecheck_trim

        vars_ = storecheck_trim(vars_, cap)
        asgs = list(ktree.assignments(vars_))
        sample_asgs = [asgs[0], asgs[len(asgs) // 2], asgs[-1]]
        text, extra = ktree.render_styled(prog, "canonical", prng)
        base = {}
        ok = True
        for v in (1, 2):
            k, err = build(run, text, extra, v)
            if k is None:
                base[v] = (None, err)
            else:
                try:
                    base[v] = ({"shape": absx.tree_shape(k), "defs": absx.tree_defs(k), "out": outputs(run, k, info, vars_, sample_asgs)}, None)
                except Exception as e:
                    base[v] = (None, "CRASH while reading the tree / writing outputs: %s: %s" % (type(e).__name__, str(e)[:200]))
        total += 1
        (b1, e1), (b2, e2) = base[1], base[2]
        if b1 is None or b2 is None:
            crash = any(e and e.startswith("CRASH") for e in (e1, e2))
            if (b1 is None) != (b2 is None) or crash:
                run.report(
                    "parsers disagree on accepting a program: parser 1: %s; parser 2: %s" % (e1 or "accepted", e2 or "accepted"),
                    {"kconfig": text, "parser1": e1 or "accepted", "parser2": e2 or "accepted"},
                    {"P-BothAcceptOrReject"} | ({"crash"} if crash else set()) | ({it["lex"]} if it.get("lex") else set()),
                )
            else:
                run.note("both parsers reject a generated program: %s" % (e1 or "")[:120])
            continue
        same = True
        for key, tag in (("shape", "P-SameTree"), ("defs", "P-SameExpressions"), ("out", "P-SameOutputs")):
            if (norm_defs(b1[key]) != norm_defs(b2[key])) if key == "defs" else (b1[key] != b2[key]):
                same = False
                diff = next(((x, y) for x, y in zip(b1[key], b2[key]) if x != y), (len(b1[key]), len(b2[key])))
                run.report("%s: the two parsers differ on the canonical text: %s" % (tag, str(diff)[:500]), {"kconfig": text, "clause": tag, "first_difference": diff}, {tag} | ({it["lex"]} if it.get("lex") else set()))
                break
        # lexical variants: each parser must read every variant as the canonical program
        # (programs that exist for one literal only are compared in their canonical form and no further)
        for st in ([] if it.get("lex") in ("two-blanks-in-literal", "if-in-literal") else styles):
            vtext, vextra = ktree.render_styled(prog, st, random.Random("%d/v%d%s" % (run.seed, pi, st)))
            nvar += 1
            if ktree.STYLES[st].get("odd_text"):
                # other texts than the canonical ones (titles, help): the two parsers are compared with each other
                res = {}
                for v in (1, 2):
                    k, err = build(run, vtext, vextra, v)
                    if k is None:
                        res[v] = ("reject", err)
                    else:
                        try:
                            res[v] = ("ok", absx.tree_shape(k), absx.tree_defs(k))
                            kc.reset_report(k)
                        except Exception as e:
                            res[v] = ("reject", "CRASH reading the tree: %s: %s" % (type(e).__name__, str(e)[:200]))
                if res[1][0] != res[2][0] or any(r[0] == "reject" and r[1].startswith("CRASH") for r in res.values()):
                    run.report("parsers disagree on accepting the '%s' variant: parser 1: %s; parser 2: %s" % (st, res[1][1] if res[1][0] == "reject" else "accepted", res[2][1] if res[2][0] == "reject" else "accepted"),
                               {"kconfig": vtext, "parser1": res[1][:2] if res[1][0] == "reject" else "accepted", "parser2": res[2][:2] if res[2][0] == "reject" else "accepted"}, {"P-BothAcceptOrReject", "style:" + st})
                elif res[1][0] == "ok" and (res[1][1] != res[2][1] or norm_defs(res[1][2]) != norm_defs(res[2][2])):
                    diff = next(((x, y) for x, y in zip(res[1][1], res[2][1]) if x != y), None) or next(((x, y) for x, y in zip(res[1][2], res[2][2]) if x != y), None)
                    run.report("the two parsers read the '%s' variant differently: %s" % (st, str(diff)[:500]), {"kconfig": vtext, "first_difference": diff}, {"P-SameTree", "style:" + st} | odd_tags(diff))
                continue
            for v, b in ((1, b1), (2, b2)):
                k, err = build(run, vtext, vextra, v)
                if k is None:
                    run.report("parser %d rejects the '%s' variant of a program it accepts in canonical form: %s" % (v, st, err), {"kconfig": vtext, "extra_files": vextra, "canonical": text, "parser": v, "error": err}, {"P-VariantAccepted", "style:" + st, "parser%d" % v})
                    continue
                try:
                    shape, defs = absx.tree_shape(k), absx.tree_defs(k)
                    kc.reset_report(k)
                except Exception as e:
                    run.report("parser %d: reading the tree of the '%s' variant raised %s: %s" % (v, st, type(e).__name__, str(e)[:200]), {"kconfig": vtext, "parser": v}, {"P-VariantAccepted", "crash"})
                    continue
                helpful = ktree.STYLES[st].get("help")
                s1, s2 = (strip_help(shape), strip_help(b["shape"])) if helpful else (shape, b["shape"])
                if s1 != s2 or norm_defs(defs) != norm_defs(b["defs"]):
                    diff = next(((x, y) for x, y in zip(s1, s2) if x != y), None) or next(((x, y) for x, y in zip(defs, b["defs"]) if x != y), None)
                    run.report("parser %d reads the '%s' variant differently from the canonical text: %s" % (v, st, str(diff)[:500]), {"kconfig": vtext, "extra_files": vextra, "canonical": text, "parser": v, "first_difference": diff}, {"P-VariantSameTree", "style:" + st, "parser%d" % v})
        if same:
            payload.append({"prog": prog, "ord": it["ord"], "vars": vars_, "d1": b1["defs"], "d2": b2["defs"], "text": text})
    run.add("evaluations", total + nvar * 2)
    # the finalised trees interpreted by the specification's evaluator
    bad = 0
    for b in range(0, len(payload), 150):
        batch = payload[b : b + 150]
        strings = set()
        for p in batch:
            ktree.strings_of(p["prog"], strings)
            ktree.strings_of(p["vars"], strings)
            ktree.strings_of(p["d1"], strings)
        tab = ktree.tables(strings)
        path = run.sub("parse_%d.json" % b)
        with open(path, "w") as f:
            json.dump({"tab": tab, "progs": [{k_: v for k_, v in p.items() if k_ != "text"} for p in batch]}, f)
        res = run_tlc("MC_Parse", "MC_Parse.cfg", run, env={"PARSE_DATA": path}, workers=16, timeout=3000, tag="parse%d" % b)
        os.unlink(path)
        if res.violated or not res.ok:
            raise MachineryFailure("MC_Parse: %s\n%s" % (res.violated, (res.error or res.out[-2500:])[:3000]))
        run.add("states", res.distinct)
        run.add("transitions", res.generated)
        seen = set()
        for v in extract_tuples(res.out, "R-|P-"):
            tag, t = v[0], v[1]
            if (tag, t) in seen:
                continue
            seen.add((tag, t))
            bad += 1
            run.report("%s: %s vs %s" % (tag, str(v[3])[:300], str(v[4])[:300]), {"kconfig": batch[t - 1]["text"], "clause": tag, "configuration_index": v[2], "expected": v[3], "observed": v[4]}, {tag})
    # fixtures shipped with the repository
    fx_total, fx_both, fx_skipped = 0, 0, 0
    old_cwd = os.getcwd()
    # the fixtures expect the build environment of ESP-IDF; unresolved environment variables are left open
    for var, val in (("IDF_TARGET", "esp32"), ("IDF_PATH", REPO), ("IDF_VERSION", "5.0"), ("IDF_ENV_FPGA", ""), ("IDF_CI_BUILD", "")):
        os.environ.setdefault(var, val)
    own = sorted(glob.glob(os.path.join(os.path.dirname(os.path.dirname(os.path.abspath(__file__))), "fixtures", "c04", "Kconfig*")))
    for path in own + sorted(glob.glob(os.path.join(REPO, "test", "**", "Kconfig*"), recursive=True)):
        if not os.path.isfile(path) or path.endswith((".new", ".in.out")):
            continue
        try:
            with open(path, encoding="utf-8") as f:
                head = f.read()
        except (OSError, UnicodeDecodeError):
            continue
        if not any(ln.startswith("mainmenu") for ln in head.splitlines()):
            continue  # a fragment meant to be sourced, not a top-level file
        fx_total += 1
        res = {}
        for v in (1, 2):
            try:
                os.chdir(os.path.dirname(path))
                k = kc.Kconfig(path, parser_version=v)
                res[v] = ("ok", absx.tree_shape(k), absx.tree_defs(k))
                kc.reset_report(k)
            except kc.KconfigError as e:
                res[v] = ("reject", str(e)[:200], None)
            except Exception as e:
                res[v] = ("crash", "%s: %s" % (type(e).__name__, str(e)[:200]), None)
            finally:
                os.chdir(old_cwd)
        if res[1][0] == "ok" and res[2][0] == "ok":
            fx_both += 1
            if res[1][1] != res[2][1] or norm_defs(res[1][2]) != norm_defs(res[2][2]):
                diff = next(((x, y) for x, y in zip(res[1][1], res[2][1]) if x != y), None) or next(((x, y) for x, y in zip(res[1][2], res[2][2]) if x != y), None)
                run.report("fixture %s: the two parsers build different trees: %s" % (os.path.relpath(path, REPO), str(diff)[:400]), {"fixture": os.path.relpath(path, REPO), "first_difference": diff}, {"P-SameTree", "fixture"})
        elif res[1][0] != res[2][0] and "crash" not in (res[1][0], res[2][0]):
            run.report(
                "fixture %s: parser 1 %s (%s), parser 2 %s (%s)" % (os.path.relpath(path, REPO), res[1][0], res[1][1] if res[1][0] != "ok" else "", res[2][0], res[2][1] if res[2][0] != "ok" else ""),
                {"fixture": os.path.relpath(path, REPO), "parser1": res[1][:2] if res[1][0] != "ok" else "ok", "parser2": res[2][:2] if res[2][0] != "ok" else "ok"},
                {"P-BothAcceptOrReject", "fixture"},
            )
        else:
            fx_skipped += 1  # both reject, or needs an environment this sandbox lacks
    run.cov["fixtures"] = {"files": fx_total, "both_accept_compared": fx_both, "skipped": fx_skipped}
    run.cov["traces_validated_against_impl"] = len(payload) - bad
    run.cov["distinct_nontrivial"] = nvar
    run.cov["programs"] = total
    run.cov["lexical_variants"] = nvar
    run.cov["exhaustive"] = False
    run.cov["rule"] = (
        "programs: lattice points (precedence, nesting, choices, option-valued set, one per dependency-edge kind), menu / implicit "
        "sub-menu / twice-defined-choice shapes, generated programs; each in canonical text and in lexical variants "
        + ", ".join(styles)
        + "; both parsers on every text; finalised trees compared structurally across parsers and variants and interpreted by TLC under "
        "every assignment (capped) against Flatten of the abstract program; fixtures: every test/**/Kconfig* both parsers accept; "
        "non-trivial = lexical variants"
    )
    run.sample({"kconfig_canonical": payload[0]["text"][:800] if payload else "", "variant_everything": ktree.render_styled(items[0]["prog"], "everything", random.Random(1))[0][:800]})
    run.assumptions += [
        "byte-level tokenisation (exotic quoting, tabs inside prompts, non-ASCII) is sampled by the variants, not modelled",
        "the order of the auxiliary lists Kconfig.choices / menus / comments is left open",
        "macros: NAME = / := literal definitions in front of entries (redefined later), used bare, quoted, embedded and doubled in default values and range bounds; option env and $(shell) are outside the generated family",
    ]

"""C17 — the menuconfig model stays consistent under any sequence of user actions.

spec/KNav.tla: shown_nodes / enter / leave / jump_to / toggle_show_all /
change_node / typed input / reset / load, total actions with an explicit error
state where the code would raise.  TLC explores all event sequences (MC_Nav.tla)
checking SelValid and recording every sequence that ends in the error state;
every explored transition is replayed on the real MenuConfigState through the
front end's handlers; TLC (MC_NavCheck.tla) compares current menu, displayed
rows, highlighted row, show-all flag and all values after every event."""
import json
import os
import random

from .. import evalcheck, histcheck, kc, ktree, lattice, menucheck, servercheck, storecheck
from ..common import MachineryFailure
from ..tlc import extract_tuples, run_tlc
from ..ktree import Y, mk_config

S = lambda n: ["s", n]  # noqa: E731
C = lambda v: ["c", v]  # noqa: E731


def nav_programs():
    """Menus with `visible if`, a menuconfig option, an implicit sub-menu, a choice defined twice."""
    out = []
    g = lambda n, d="y": mk_config(n, "bool", prompt=Y, defaults=[{"v": [d], "c": Y}])  # noqa: E731
    # P1: nested menus with visible if / depends on, numeric options, forced options
    u = g("U", "n")
    u["sets"].append({"t": "N", "v": C("7"), "c": Y, "str": False})
    u["selects"].append({"t": "B2", "c": Y})
    p1 = [
        g("G"),
        g("V"),
        u,
        {
            "k": "menu",
            "title": "outer",
            "dep": S("G"),
            "visif": Y,
            "children": [
                mk_config("N", "int", prompt=Y, defaults=[{"v": C("5"), "c": Y}], ranges=[{"lo": C("1"), "hi": C("10"), "c": Y}]),
                {"k": "menu", "title": "inner", "dep": Y, "visif": S("V"), "children": [g("B2", "n"), mk_config("H", "hex", prompt=Y, defaults=[{"v": C("0x10"), "c": Y}])]},
                {"k": "comment", "title": "note", "dep": Y},
            ],
        },
        mk_config("STR", "string", prompt=S("G"), defaults=[{"v": C("sv"), "c": Y}]),
    ]
    o1 = [["s", n] for n in ("G", "V", "U", "N", "B2", "H", "STR")]
    out.append({"prog": p1, "ord": o1, "label": "menus"})
    # P2: menuconfig option with an implicit sub-menu, and a plain option with an implicit sub-menu
    mc = g("MC")
    mc["menuconfig"] = True
    p2 = [
        g("G"),
        mc,
        mk_config("MC_A", "bool", prompt=Y, dep=S("MC"), defaults=[{"v": ["n"], "c": Y}]),
        mk_config("MC_N", "int", prompt=Y, dep=S("MC"), defaults=[{"v": C("3"), "c": Y}]),
        g("PL", "n"),
        mk_config("PL_A", "bool", prompt=Y, dep=S("PL"), defaults=[{"v": ["y"], "c": Y}]),
        mk_config("F", "float", prompt=S("G"), defaults=[{"v": C("1.5"), "c": Y}], ranges=[{"lo": C("0.0"), "hi": C("10.0"), "c": Y}]),
    ]
    o2 = [["s", n] for n in ("G", "MC", "MC_A", "MC_N", "PL", "PL_A", "F")]
    out.append({"prog": p2, "ord": o2, "label": "implicit-submenus"})
    # P3: a named choice defined in two places, members with conditional prompts
    ch_a = {"k": "choice", "id": "CH", "title": "ch", "prompt": [Y], "dep": Y, "defaults": [{"m": "M2", "c": Y}], "children": [mk_config("M1", "bool", prompt=S("G")), mk_config("M2", "bool", prompt=Y)]}
    ch_b = {"k": "choice", "id": "CH", "title": "ch again", "prompt": [Y], "dep": Y, "defaults": [], "children": [mk_config("M3", "bool", prompt=Y)]}
    p3 = [g("G"), ch_a, {"k": "menu", "title": "more", "dep": Y, "visif": S("G"), "children": [ch_b]}, mk_config("OBS", "int", defaults=[{"v": C("1"), "c": S("M1")}, {"v": C("3"), "c": S("M3")}, {"v": C("0"), "c": Y}])]
    o3 = [["s", "G"], ["ch", "CH"], ["s", "M1"], ["s", "M2"], ["s", "M3"], ["s", "OBS"]]
    out.append({"prog": p3, "ord": o3, "label": "choice-twice"})
    # P4: the two definitions of a named choice share an option (declared in both, and twice inside one of them)
    ch_a = {"k": "choice", "id": "CH", "title": "ch", "prompt": [Y], "dep": Y, "defaults": [], "children": [mk_config("M1", "bool", prompt=Y), mk_config("M2", "bool", prompt=Y)]}
    ch_b = {"k": "choice", "id": "CH", "title": "ch again", "prompt": [Y], "dep": Y, "defaults": [], "children": [mk_config("M2", "bool", prompt=Y), mk_config("M3", "bool", prompt=S("G")), mk_config("M3", "bool", prompt=Y)]}
    p4 = [g("G"), ch_a, {"k": "menu", "title": "board", "dep": Y, "visif": Y, "children": [ch_b]}, mk_config("OBS", "int", defaults=[{"v": C("2"), "c": S("M2")}, {"v": C("3"), "c": S("M3")}, {"v": C("0"), "c": Y}])]
    o4 = [["s", "G"], ["ch", "CH"], ["s", "M1"], ["s", "M2"], ["s", "M3"], ["s", "OBS"]]
    out.append({"prog": p4, "ord": o4, "label": "choice-twice-shared-option"})
    # P5: options that ask for confirmation (`warning`): hidden, forced by set, selected, ordinary
    u = g("U", "n")
    u["sets"].append({"t": "WN", "v": C("4"), "c": Y, "str": False})
    u["selects"].append({"t": "WS", "c": Y})

    def w(e):
        e["warning"] = "changing this is dangerous"
        return e

    p5 = [
        g("G"),
        u,
        w(mk_config("WB", "bool", prompt=S("G"), defaults=[{"v": ["n"], "c": Y}])),
        w(mk_config("WN", "int", prompt=Y, defaults=[{"v": C("3"), "c": Y}])),
        w(g("WS", "n")),
        w(g("WV", "n")),
        w(mk_config("WH", "int", prompt=S("G"), defaults=[{"v": C("3"), "c": Y}])),
    ]
    o5 = [["s", n] for n in ("G", "U", "WB", "WN", "WS", "WV", "WH")]
    out.append({"prog": p5, "ord": o5, "label": "warnings"})
    # P6: rows that are no options - comments, a menu holding only a comment, an empty menu - shown or hidden by an
    # option X on which no option or choice depends in any way
    p6 = [
        g("X"),
        {"k": "comment", "title": "while X", "dep": S("X")},
        {"k": "menu", "title": "only a comment inside", "dep": Y, "visif": S("X"), "children": [{"k": "comment", "title": "inside", "dep": Y}]},
        {"k": "menu", "title": "nothing inside", "dep": S("X"), "visif": Y, "children": []},
        g("Y", "n"),
    ]
    out.append({"prog": p6, "ord": [["s", "X"], ["s", "Y"]], "label": "comment-rows"})
    return out


def front_change(state, node):
    """SPACE / ENTER on a row as the front end handles it: an option with a `warning` asks first, the user says yes."""
    from esp_menuconfig.model import ChangeResult

    r = state.change_node(node)
    if r == ChangeResult.NEEDS_WARNING:
        r = state.force_change_node(node)
    return r


def structure(kconf, prog):
    nodes = list(kconf.node_iter())
    abst = [e for e in ktree.walk(prog) if e["k"] != "if"]
    if len(nodes) != len(abst):
        raise MachineryFailure("tree walk mismatch: %d real nodes vs %d abstract entries" % (len(nodes), len(abst)))
    idx = {id(n): k + 1 for k, n in enumerate(nodes)}
    idx[id(kconf.top_node)] = 0

    def kids(n):
        out, c = [], n.list
        while c:
            out.append(idx[id(c)])
            c = c.next
        return out

    return {"top": kids(kconf.top_node), "nodes": [{"parent": idx[id(n.parent)], "kids": kids(n), "mc": bool(n.is_menuconfig)} for n in nodes]}, nodes, idx


def events_for(prog, nodes_n, info, n_files):
    ev = []
    for k in range(5):
        ev.append({"e": "select", "k": k})
        ev.append({"e": "toggle", "k": k})
        ev.append({"e": "setbool", "k": k, "v": "y"})
        ev.append({"e": "setbool", "k": k, "v": "n"})
        ev.append({"e": "reset", "k": k})
    for k in range(4):
        for v in ("3", "100", "0x1F", "zz", "2.5", "-5", "1_0"):
            ev.append({"e": "input", "k": k, "v": v})
    ev.append({"e": "leave"})
    ev.append({"e": "showall"})
    for i in range(1, nodes_n + 1):
        ev.append({"e": "jump", "i": i})
    for f in range(n_files):
        ev.append({"e": "load", "f": f + 1})
    return ev


def drive(run, state, stub, nodes, idx, ev, paths):
    """One front-end event on the real state (the handlers of app.py, minus widgets)."""
    from esp_menuconfig.model import ChangeResult

    e = ev["e"]
    problem, detail = "", []
    if e in ("select", "toggle", "input", "setbool", "reset"):
        k = ev["k"]
        if k >= len(state.shown):
            return problem, detail
        state.sel_node_i = k
        node = state.shown[k]
        item = node.item
        before = item.str_value if isinstance(item, kc.core.Symbol) else None
        locked = isinstance(item, kc.core.Symbol) and (
            (item.orig_type != kc.BOOL and item._has_active_indirect_set) or (item.orig_type == kc.BOOL and not item.choice and kc.core.expr_value(item.rev_dep))
        )
        asg_before = tuple(item.assignable) if isinstance(item, kc.core.Symbol) else ()
        if e == "select":
            if not state.enter_menu(node):
                front_change(state, node)
        elif e == "toggle":
            if front_change(state, node) == ChangeResult.NO_CHANGE:
                state.enter_menu(node)
        elif e == "setbool":
            state.set_sel_node_bool_val({"n": 0, "y": 2}[ev["v"]])
        elif e == "reset":
            if item == kc.core.MENU:
                state.restore_defaults_recursive(node)
            else:
                state.restore_default(node)
        elif e == "input":
            if isinstance(item, kc.core.Symbol) and item.orig_type != kc.BOOL and front_change(state, node) == ChangeResult.NEEDS_INPUT:
                ok, _ = state.check_valid(item, ev["v"])
                if ok:
                    stub.App._apply_input(stub, node, ev["v"])
                    want = ev["v"].strip() if item.orig_type != kc.STRING else ev["v"]
                    if item.orig_type == kc.HEX and not want.startswith(("0x", "0X")):
                        want = "0x" + want
                    if item.orig_type == kc.FLOAT:
                        want = str(float(want))
                    if item.str_value != want:
                        problem, detail = "P-InputHonoured", [item.name, ev["v"], item.str_value]
        if isinstance(item, kc.core.Symbol) and e != "reset":
            after = item.str_value
            if locked and after != before:
                problem, detail = "P-Locked", [item.name, before, after]
            if item.orig_type == kc.BOOL and after != before and {"n": 0, "y": 2}[after] not in asg_before:
                problem, detail = "P-OnlyAssignable", [item.name, before, after, list(asg_before)]
    elif e == "leave":
        if state.cur_menu is not state.kconf.top_node:
            state.leave_menu()
    elif e == "showall":
        state.toggle_show_all()
    elif e == "jump":
        state.jump_to(nodes[ev["i"] - 1])
    elif e == "load":
        stub.App._handle_load_result(stub, paths[ev["f"] - 1])
    return problem, detail


def snapshot(state, names, idx):
    k = state.kconf
    return {
        "cur": idx[id(state.cur_menu)],
        "shown": [idx[id(n)] for n in state.shown],
        "sel": state.sel_node_i,
        "all": bool(state.show_all),
        "vals": [k.syms[n].str_value for n in names],
        "raised": False,
        "exception": "",
        "problem": "",
        "detail": [],
    }


def main(run):
    tier = run.tier
    rng = random.Random(run.seed)
    items = nav_programs()
    if tier == "thorough":
        items += [p for p in lattice.nest_lattice()[::4]] + ktree.generate(run.seed + 5100, 40)
    else:
        items += lattice.nest_lattice()[10:40:10] + ktree.generate(run.seed + 5100, 4)
    maxlen, cap = (3, 900) if tier == "quick" else (3, 8000)
    progs = []
    strings = set()
    for pi, it in enumerate(items):
        prog = it["prog"]
        text = ktree.render(prog)
        info = ktree.sym_info(prog)
        names = ktree.sym_names(prog)
        d = run.sub("nav_%d" % pi)
        os.makedirs(d)
        k = kc.build(text, run.scratch)
        struct, nodes, idx = structure(k, prog)
        from esp_menuconfig.idf_headers import idf_sdkconfig_header

        init_path = os.path.join(d, "sdkconfig")
        k.write_config(init_path, header=idf_sdkconfig_header(), save_old=False)
        with open(init_path) as f:
            init_text = f.read()
        # alternate files: hide things / change values
        alts = []
        bools = [n for n in names if info[n]["type"] == "bool" and not info[n]["choice"] and info[n]["prompt"]]
        if bools:
            alts.append(histcheck.file_text([{"n": bools[0], "v": "n", "t": "bool"}]))
            alts.append(histcheck.file_text([{"n": b, "v": "n", "t": "bool"} for b in bools[:3]]))
        kc.reset_report(k)
        ev = events_for(prog, len(nodes), info, len(alts))
        p = {
            "prog": prog,
            "ord": it["ord"],
            "text": text,
            "info": info,
            "names": names,
            "dir": d,
            "struct": struct,
            "init_text": init_text,
            "init": [{"n": n, "v": v, "d": bool(dd), "u": bool(info.get(n, {}).get("type") == "bool" and v == "n")} for n, v, dd in storecheck.parse_sdkconfig(init_text, info)],
            "alts": alts,
            "files": [[{"n": n, "v": v, "d": bool(dd), "u": bool(info.get(n, {}).get("type") == "bool" and v == "n")} for n, v, dd in storecheck.parse_sdkconfig(a, info)] for a in alts],
            "events": ev,
            "menus": servercheck.menu_contents(prog),
        }
        progs.append(p)
        ktree.strings_of(prog, strings)
        ktree.strings_of(ev, strings)
        ktree.strings_of(p["init"], strings)
        ktree.strings_of(p["files"], strings)
    tab = ktree.tables(strings)

    def payload(with_traces):
        out = []
        for p in progs:
            e = {k_: p[k_] for k_ in ("prog", "ord", "struct", "init", "files", "events", "menus")}
            if with_traces:
                e["traces"] = p["traces"]
            out.append(e)
        return out

    path = run.sub("nav.json")
    with open(path, "w") as f:
        json.dump({"tab": tab, "maxlen": maxlen, "progs": payload(False)}, f)
    res = run_tlc("MC_Nav", "MC_Nav.cfg", run, env={"NAV_DATA": path}, workers=1, timeout=3000, tag="nav")
    if res.violated or not res.ok:
        from ..tlc import format_trace

        raise MachineryFailure("MC_Nav: %s\n%s\n%s" % (res.violated, format_trace(res)[-2000:], (res.error or res.out[-2000:])[:2500]))
    run.add("states", res.distinct)
    run.add("transitions", res.generated)
    hists = [[] for _ in progs]
    errh = [[] for _ in progs]
    for v in extract_tuples(res.out, 'H"|E"'):
        if v[0] == "H":
            hists[v[1] - 1].append(v[2])
        else:
            errh[v[1] - 1].append(v[2])
    run.cov["model_error_states"] = sum(len(e) for e in errh)
    total = 0
    for p, hs, es in zip(progs, hists, errh):
        keep = [h for h in hs if h in es]  # sequences the model says end in a failure: always replayed
        rest = [h for h in hs if h not in keep]
        room = max(0, cap - len(keep))
        if len(rest) > room:
            step = len(rest) / float(max(1, room))
            rest = [rest[int(j * step)] for j in range(room)]
        p["traces"] = []
        # beyond the exhaustive bound: seeded walks of 4-8 events (validated by MC_NavCheck like the others)
        wr = random.Random("%d/walk17/%d" % (run.seed, progs.index(p)))
        walks = [[wr.randrange(len(p["events"])) + 1 for _ in range(wr.randint(4, 8))] for _ in range(12 if tier == "quick" else 200)]
        for j, h in enumerate(keep[: cap] + rest + walks):
            conf = os.path.join(p["dir"], "sdkconfig_run")
            kc.write_text(conf, p["init_text"])
            paths = []
            for a_i, a in enumerate(p["alts"]):
                pp = os.path.join(p["dir"], "alt_%d" % a_i)
                kc.write_text(pp, a)
                paths.append(pp)
            state, stub = menucheck.start_session(run, p["text"], conf)
            nodes = list(state.kconf.node_iter())
            idx = {id(n): k_ + 1 for k_, n in enumerate(nodes)}
            idx[id(state.kconf.top_node)] = 0
            obs = [snapshot(state, p["names"], idx)]
            for k_ in h:
                try:
                    problem, detail = drive(run, state, stub, nodes, idx, p["events"][k_ - 1], paths)
                    o = snapshot(state, p["names"], idx)
                    o["problem"], o["detail"] = problem, [str(x) for x in detail]
                except Exception as e:
                    import traceback

                    tb = traceback.extract_tb(e.__traceback__)
                    if os.path.abspath(tb[-1].filename).startswith(os.path.dirname(os.path.dirname(os.path.abspath(__file__)))):
                        raise MachineryFailure("the harness itself raised %s: %s at %s:%d" % (type(e).__name__, e, tb[-1].filename, tb[-1].lineno))
                    o = dict(obs[-1])
                    o.update(raised=True, exception="%s: %s @ %s" % (type(e).__name__, str(e)[:120], ["%s:%d %s" % (os.path.basename(fr.filename), fr.lineno, fr.name) for fr in tb[-2:]]), problem="", detail=[])
                    obs.append(o)
                    break
                obs.append(o)
                kc.reset_report(state.kconf)
            while len(obs) < len(h) + 1:
                obs.append(dict(obs[-1]))
            p["traces"].append({"h": h, "obs": obs})
            total += 1
    run.add("evaluations", total)
    with open(path, "w") as f:
        json.dump({"tab": tab, "maxlen": maxlen, "progs": payload(True)}, f)
    res2 = run_tlc("MC_NavCheck", "MC_NavCheck.cfg", run, env={"NAV_DATA": path}, workers=16, timeout=3000, tag="navc")
    os.unlink(path)
    if res2.violated or not res2.ok:
        raise MachineryFailure("MC_NavCheck: %s\n%s" % (res2.violated, (res2.error or res2.out[-2500:])[:3000]))
    run.add("states", res2.distinct)
    run.add("transitions", res2.generated)
    bad = set()
    for v in extract_tuples(res2.out, "R-|P-"):
        tag, t, i, k_, a, b = v[0], v[1], v[2], v[3], v[4], v[5]
        p = progs[t - 1]
        tr = p["traces"][i - 1]
        evs = [p["events"][x - 1] for x in tr["h"]]
        if tag == "R-raise":
            raise MachineryFailure("KNav predicts a failure (%s) at step %d of %s that the implementation does not show: the model is wrong\n%s" % (a, k_, evs, p["text"]))
        bad.add((t, i))
        tags = {tag}
        if tag == "P-NoRaise":
            tags.add(str(a))
            if "leave_menu" in str(b) or "leave_menu" in str(a):
                tags.add("leave_menu")
        run.report(
            "%s at step %d of %s: %s / %s" % (tag, k_, evs, str(a)[:300], str(b)[:300]),
            {"kconfig": p["text"], "events": evs, "alt_files": p["alts"], "clause": tag, "step": k_, "expected": a, "observed": b},
            tags,
        )
    run.cov["traces_validated_against_impl"] = total - len(bad)
    run.cov["distinct_nontrivial"] = total
    run.cov["programs"] = len(progs)
    run.cov["exhaustive"] = tier == "thorough"
    run.cov["rule"] = (
        "programs: nested menus with visible if / depends on with forced and selected options, a menuconfig option and a plain option with "
        "implicit sub-menus, a named choice defined in two places, F-nest points, generated programs; events: select / toggle / "
        "y,n keys / reset on rows 0-4, typed input of 5 literals on rows 0-3, leave, show-all, jump to every node, load of files that "
        "hide options; every transition of the TLC exploration of sequences <= %d (sequences the model marks as failing are always "
        "replayed, the rest stride-sampled); every session is distinct" % maxlen
    )
    ex = progs[0]["traces"][-1]
    run.sample({"kconfig": progs[0]["text"], "events": [progs[0]["events"][x - 1] for x in ex["h"]], "observed": [{k_: o[k_] for k_ in ("cur", "shown", "sel", "all")} for o in ex["obs"]]})
    run.assumptions += [
        "the Textual layer is not started; its event handlers are reproduced by calling the same MenuConfigState methods in the same order (app.py _on_node_selected, _on_node_toggled, _apply_input, action_restore_default, _handle_load_result)",
        "the menu tree structure (parent, children, is_menuconfig) is read from the real object; visibility conditions come from the abstract program",
    ]

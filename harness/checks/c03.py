"""C03 — incremental re-evaluation equals evaluation from scratch.

TLC explores sessions of the KStore model in which reads (which fill cached
results on the implementation) are interleaved with changes (set / unset /
reset / load); each explored transition is replayed on a fresh real instance
WITHOUT discarding any cached result, the values are read in a seeded order,
then re-read in another order, re-read after discarding all caches, and read
from a fresh instance that received the same final user values in another
order.  TLC validates every observation against the from-scratch evaluation
of spec/KEval.tla and evaluates the equalities between the observations."""
import os
import random

from .. import histcheck, ktree, lattice
from ..common import MachineryFailure


def tool_written(run, item, vars_, info):
    """Two files the real tool writes for this program (all-last-candidates, all-first-candidates), as lines."""
    from .. import evalcheck, kc, storecheck

    text = item.get("text") or ktree.render(item["prog"])
    item["text"] = text
    out = []
    for pick in (-1, 0):
        asg = {}
        for v in vars_:
            cands = [c for c in v["cands"] if c != ktree.NOVAL]
            asg[v["n"]] = cands[pick] if cands else ktree.NOVAL
        try:
            k = kc.build(text, run.scratch)
            evalcheck.apply_assignment(k, info, vars_, asg)
            p = os.path.join(run.scratch, "toolfile")
            k.write_config(p, save_old=False)
            with open(p) as f:
                lines = storecheck.parse_sdkconfig(f.read(), info)
            os.unlink(p)
            kc.reset_report(k)
        except Exception:
            continue  # a writer that raises is C02's / C06's subject
        out.append([{"n": n, "v": v, "t": info[n]["type"], "d": bool(d)} for n, v, d in lines if n in info])
    return out


def alphabet(item, rng, run=None):
    prog = item["prog"]
    info = ktree.sym_info(prog)
    names = ktree.sym_names(prog)
    vars_ = item.get("vars") or ktree.user_candidates(prog, rng, 10**6)
    acts, files = [], []
    settable = []
    for v in vars_:
        if v["kind"] == "sym":
            for val in [c for c in v["cands"] if c != ktree.NOVAL][:2]:
                acts.append({"a": "set", "n": v["n"], "v": val})
            acts.append({"a": "unset", "n": v["n"]})
            settable.append(v["n"])
        else:
            mem = ktree.members(prog, v["n"])
            for m in mem[:3]:
                acts.append({"a": "set", "n": m, "v": "y"})
            acts.append({"a": "set", "n": mem[0], "v": "n"})
            acts.append({"a": "resetch", "c": v["n"], "m": mem[0]})
    for n in settable[-2:]:
        acts.append({"a": "reset", "n": n})
    # reads: the last options (they depend on the most) and one early one
    for n in (names[-2:] + names[:1]):
        acts.append({"a": "read", "n": n})
    acts.append({"a": "readall"})
    # one hand-written defaults-style file assigning the first two settable options
    lines = []
    for v in vars_:
        if v["kind"] == "sym" and len(lines) < 2:
            val = [c for c in v["cands"] if c != ktree.NOVAL][-1]
            lines.append({"n": v["n"], "v": val, "t": info[v["n"]]["type"]})
    if lines:
        files.append(lines)
        acts.append({"a": "load", "f": 1, "replace": False})
        acts.append({"a": "load", "f": 1, "replace": True})
    # files the tool itself wrote for this program (default-marked entries included), loaded with replace
    if run is not None:
        for tw in tool_written(run, item, vars_, info):
            files.append(tw)
            acts.append({"a": "load", "f": len(files), "replace": True})
    item["acts"], item["files"] = acts, files
    return item


def gated_histories(it, cap=6):
    """Depth 4 where it matters most: [switch a gate off, change, read everything, change] for every gate-off action
    and every pair of changes (member picks and member n first, then the other sets / unsets / resets; capped): a
    change aimed at something that is currently hidden or ineffective must still be seen by the next read."""
    acts = it["acts"]
    info = ktree.sym_info(it["prog"])
    gates = [k + 1 for k, a in enumerate(acts) if a["a"] == "set" and a.get("v") == "n" and not info.get(a["n"], {}).get("choice")]
    member = [k + 1 for k, a in enumerate(acts) if a["a"] == "set" and info.get(a.get("n"), {}).get("choice")]
    other = [k + 1 for k, a in enumerate(acts) if a["a"] in ("set", "unset", "reset", "resetch") and k + 1 not in member and k + 1 not in gates]
    changes = (member + other)[:cap]
    ra = [k + 1 for k, a in enumerate(acts) if a["a"] == "readall"]
    if not gates or not ra:
        return []
    return [[g, x, ra[0], y] for g in gates[:3] for x in changes for y in changes]


def main(run):
    tier = run.tier
    rng = random.Random(run.seed)
    lat = lattice.prec_lattice(tier)
    if tier == "quick":
        def keep(p):  # besides the stride: an option whose prompt is not on its last definition
            pt = p.get("point", {})
            return p["family"] in ("F-setsym", "F-edge", "F-regress") or (p["family"] == "F-multidef" and pt.get("prompt1") and not pt.get("prompt2"))

        lat = [p for k, p in enumerate(lat) if keep(p) or k % 9 == 0]
        gen = ktree.generate(run.seed + 300, 30)
        maxlen, cap, nwalk = 3, 140, 8
    else:
        gen = ktree.generate(run.seed + 300, 400)
        maxlen, cap, nwalk = 3, 3000, 80
    sess = [alphabet(dict(it), rng, run) for it in lat + gen]
    total = 0
    nlong = 0
    bad = set()
    chunk = 40
    for b in range(0, len(sess), chunk):
        part = sess[b : b + chunk]
        res, hists = histcheck.explore(run, part, maxlen, "c03_%d" % b, workers=1)
        run.add("states", res.distinct)
        run.add("transitions", res.generated)
        for pi, (it, hs) in enumerate(zip(part, hists)):
            # keep histories that end in a change preceded by a read, or in a read: those are
            # the ones in which a stale result can show; stride-sample the rest
            if len(hs) > cap:
                kinds = [a["a"] for a in it["acts"]]
                prio = [h for h in hs if kinds[h[-1] - 1] not in ("read", "readall") and any(kinds[k - 1] in ("read", "readall") for k in h[:-1])]
                rest = [h for h in hs if h not in prio] if len(prio) < cap else []
                if len(prio) > cap:
                    step = len(prio) / float(cap)
                    prio = [prio[int(j * step)] for j in range(cap)]
                room = cap - len(prio)
                if rest and room > 0:
                    step = max(1.0, len(rest) / float(room))
                    rest = [rest[int(j * step)] for j in range(min(room, len(rest)))]
                else:
                    rest = []
                hs = prio + rest
            # deeper than the exhaustive bound: seeded walks of 4..8 actions over the same alphabet (every
            # index sequence is a behaviour of MC_Hist); validated by MC_HistCheck like the others
            hs = hs + gated_histories(it)
            wr = random.Random("%d/walk/%d" % (run.seed, b + pi))
            walks = [[wr.randrange(len(it["acts"])) + 1 for _ in range(wr.randint(4, 8))] for _ in range(nwalk)]
            hs = hs + walks
            nlong += len(walks)
            it["traces"] = [histcheck.replay(run, it, h, random.Random("%d/%d" % (run.seed, j)), with_fresh=True) for j, h in enumerate(hs)]
            total += len(hs)
            for tr in it["traces"]:
                if tr["err"]:
                    run.report(
                        "the implementation raised %s during session %s" % (tr["exception"], [it["acts"][k - 1] for k in tr["h"]]),
                        {"kconfig": it["text"], "actions": [it["acts"][k - 1] for k in tr["h"]], "files": it["files"], "exception": tr["exception"], "where": tr["where"]},
                        {"exception", tr["exception"].split(":")[0]} | {w.split(" ")[-1] for w in tr["where"]},
                    )
        res2, found = histcheck.validate(run, part, "c03_%d" % b)
        run.add("states", res2.distinct)
        run.add("transitions", res2.generated)
        for v in found:
            tag, t, i, a, bb = v[0], v[1], v[2], v[3], v[4]
            if tag == "P-OutputsAgree":
                continue
            it = part[t - 1]
            tr = it["traces"][i - 1]
            bad.add((b + t, i))
            acts = [it["acts"][k - 1] for k in tr["h"]]
            diff = [(n, x, y) for n, x, y in zip(ktree.sym_names(it["prog"]), a, bb) if x != y] if isinstance(a, list) and isinstance(bb, list) and len(a) == len(bb) else []
            run.report(
                "%s after session %s: %s" % (tag, acts, diff[:3] or (a, bb)),
                {"kconfig": it["text"], "actions": acts, "files": it["files"], "clause": tag, "expected": a, "observed": bb},
                {tag},
            )
    run.add("evaluations", total)
    run.cov["traces_validated_against_impl"] = total - len(bad)
    run.cov["distinct_nontrivial"] = total
    run.cov["sessions"] = total
    run.cov["long_walks"] = nlong
    run.cov["exhaustive"] = tier == "thorough"
    run.cov["rule"] = (
        "every transition of the TLC exploration of sessions <= %d actions over per-program alphabets (set 2 values / unset per option, "
        "member picks, reset, read of single options, read all, merge and replace load of a hand-written file) on the F-prec / F-nest / "
        "F-choice / F-setsym lattices and generated programs, plus seeded walks of 4-8 actions over the same alphabets; each replayed on a fresh instance without cache flushes; clauses: value = "
        "from-scratch specification value, = value after _invalidate_all(), = fresh instance with the same user state applied in another "
        "order, = second read in another order; every history is distinct and non-trivial (at least one action)" % maxlen
    )
    run.sample({"kconfig": sess[0]["text"], "actions": [sess[0]["acts"][k - 1] for k in sess[0]["traces"][-1]["h"]], "observed": sess[0]["traces"][-1]["obs"]})
    run.sample({"kconfig": sess[-1]["text"], "actions": [sess[-1]["acts"][k - 1] for k in sess[-1]["traces"][-1]["h"]]})
    run.assumptions += [
        "the final user state of the real object is read through _user_value / _user_selection (private; the fresh-instance clause is skipped if absent)",
        "hand-written files carry no default-marked entries, so the fresh-instance comparison applies to every history",
    ]

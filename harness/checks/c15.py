"""C15 — the config server answers every request and survives bad ones.

A decision table: every protocol key x every JSON kind (and every option type
x kind inside `set`, every element kind inside `reset`), non-object and
non-JSON lines, unreadable / unwritable files, each alone and combined with a
good part, embedded in a session between two valid requests and followed by a
save.  spec/KServer.tla Sanitize + Handle give the configuration the session
must end in (the bad part is as if it had not been sent); TLC (MC_Server15.tla)
compares it with the file the real server saved and evaluates OneReply,
StdoutPure, Alive and ErrorsListed on the observations."""
import json
import os
import random
import sys as sys_

from .. import kc, ktree, servercheck, storecheck
from ..common import MachineryFailure
from ..ktree import Y, mk_config
from ..tlc import extract_tuples, run_tlc

C = lambda v: ["c", v]  # noqa: E731
S = lambda n: ["s", n]  # noqa: E731


def program():
    ents = [
        mk_config("B", "bool", prompt=Y, defaults=[{"v": ["y"], "c": Y}]),
        mk_config("I", "int", prompt=Y, defaults=[{"v": C("5"), "c": Y}], ranges=[{"lo": C("0"), "hi": C("100"), "c": Y}]),
        mk_config("H", "hex", prompt=Y, defaults=[{"v": C("0x10"), "c": Y}]),
        mk_config("S", "string", prompt=Y, defaults=[{"v": C("sv"), "c": Y}]),
        mk_config("F", "float", prompt=Y, defaults=[{"v": C("1.5"), "c": Y}]),
        mk_config("HID", "int", prompt=["!", S("B")], defaults=[{"v": C("7"), "c": Y}]),
        # GHOST is mentioned but never defined: an unknown option for the protocol
        mk_config("DEPU", "bool", prompt=Y, dep=["!", S("GHOST")], defaults=[{"v": ["n"], "c": Y}]),
        {"k": "menu", "title": "M", "dep": Y, "visif": Y, "children": [mk_config("MB", "bool", prompt=Y, defaults=[{"v": ["n"], "c": Y}])]},
    ]
    order = [["s", n] for n in ("B", "I", "H", "S", "F", "HID", "DEPU", "MB")]
    return {"prog": ents, "ord": order}


TYPES = {"B": "bool", "I": "int", "H": "hex", "S": "string", "F": "float", "HID": "int", "DEPU": "bool", "MB": "bool"}

# JSON kinds: (abstract jv, concrete value)
KINDS = {
    "true": (["b", "y"], True),
    "false": (["b", "n"], False),
    "null": (["null", ""], None),
    "int": (["i", "12"], 12),
    "negint": (["i", "-3"], -3),
    "bigint": (["i", "2000000000"], 2000000000),
    "float": (["f", "2.5"], 2.5),
    "numstr": (["s", "12"], "12"),
    "hexstr": (["s", "1f"], "1f"),
    "str": (["s", "abc"], "abc"),
    "emptystr": (["s", ""], ""),
    "list": (["list", ""], [1, "a"]),
    "obj": (["obj", ""], {"a": 1}),
}


HUGE_HEX_ABSTRACT = "7fffffff"
HUGE_HEX = "f" * 4000

# the same tree with 1200 more options beside the ones the requests talk about (none of them is ever mentioned)
WIDE_PADDING = "".join('config ZZW%d\n    bool "padding %d"\n\n' % (i, i) for i in range(1200))


def loads_big(text):
    """json.loads for the harness's own reading of replies, which may carry numbers of thousands of digits (the
    interpreter's limit stays in force for the server under test)."""
    if not hasattr(sys_, "set_int_max_str_digits"):
        return json.loads(text)
    limit = sys_.get_int_max_str_digits()
    sys_.set_int_max_str_digits(0)
    try:
        return json.loads(text)
    finally:
        sys_.set_int_max_str_digits(limit)


def good(ver=3, **kw):
    r = {"ver": ["ok", ver], "load": ["absent"], "save": ["absent"], "set": ["absent"], "reset": ["absent"]}
    r.update(kw)
    return ["req", r]


def rows():
    out = []
    for k in KINDS:
        if k != "int":
            out.append(("version=%s" % k, good(set=["obj", [["I", ["i", "9"]]]], ver=None) if False else ["req", dict(good()[1], ver=["bad", k], set=["obj", [["I", ["i", "9"]]]])]))
        if k != "obj":
            out.append(("set=%s" % k, ["req", dict(good()[1], set=["bad", k])]))
            out.append(("set=%s+save" % k, ["req", dict(good()[1], set=["bad", k], reset=["list", [["s", "S"]]])]))
        if k != "list":
            out.append(("reset=%s" % k, ["req", dict(good()[1], reset=["bad", k], set=["obj", [["I", ["i", "9"]]]])]))
        if k not in ("null", "numstr", "hexstr", "str", "emptystr"):
            out.append(("load=%s" % k, ["req", dict(good()[1], load=["bad", k], set=["obj", [["I", ["i", "9"]]]])]))
            out.append(("save=%s" % k, ["req", dict(good()[1], save=["bad", k], set=["obj", [["I", ["i", "9"]]]])]))
        for opt in ("B", "I", "H", "S", "F"):
            if opt == "S" and k in ("int", "negint", "bigint", "float"):
                continue  # numbers for a string option: left open
            out.append(("set.%s=%s" % (opt, k), ["req", dict(good()[1], set=["obj", [[opt, KINDS[k][0]], ["MB", ["b", "y"]]]])]))
        if k not in ("numstr", "hexstr", "str", "emptystr"):
            out.append(("reset[%s]" % k, ["req", dict(good()[1], reset=["list", [["bad", k], ["s", "I"]]])]))
    out += [
        ("version=99", ["req", dict(good()[1], ver=["ok", 99], set=["obj", [["I", ["i", "9"]]]])]),
        ("version=0", ["req", dict(good()[1], ver=["ok", 0], set=["obj", [["I", ["i", "9"]]]])]),
        ("no version", ["req", dict(good()[1], ver=["bad", "missing"], set=["obj", [["I", ["i", "9"]]]])]),
        ("set unknown", good(set=["obj", [["NOPE", ["b", "y"]], ["I", ["i", "9"]]]])),
        ("set invisible", good(set=["obj", [["HID", ["i", "3"]], ["I", ["i", "9"]]]])),
        ("set out of range", good(set=["obj", [["I", ["i", "500"]], ["S", ["s", "ok"]]]])),
        ("reset unknown", good(reset=["list", [["s", "NOPE"], ["s", "I"]]])),
        ("reset unknown menu", good(reset=["list", [["s", "no-such-menu-1"], ["s", "I"]]])),
        ("reset menu", good(reset=["list", [["s", "menu:M"]]])),
        ("reset all", good(reset=["list", [["s", "all"]]], set=["obj", [["I", ["i", "9"]]]])),
        # a valid hex value of thousands of digits (for the specification: the largest number of its universe)
        ("set hex to a huge number", good(set=["obj", [["H", ["s", HUGE_HEX_ABSTRACT]], ["MB", ["b", "y"]]]])),
        # client text that ends up quoted in error messages: console-markup look-alikes must stay inert
        ("set unknown [/tag]", good(set=["obj", [["NO[/SUCH]", ["b", "y"]], ["I", ["i", "9"]]]])),
        ("set unknown [tag]", good(set=["obj", [["[bold]NOPE", ["b", "y"]], ["I", ["i", "9"]]]])),
        ("reset unknown [/]", good(reset=["list", [["s", "[/]"], ["s", "I"]]])),
        ("reset unknown [/tag]", good(reset=["list", [["s", "menu[/old]-1"], ["s", "I"]]])),
        ("load missing file [/tag]", good(load=["nofile", 3], set=["obj", [["I", ["i", "9"]]]])),
        ("save into missing directory [/tag]", good(save=["nofile", 4], set=["obj", [["I", ["i", "9"]]]])),
        ("set string with markup", good(set=["obj", [["S", ["s", "[/red] x [bold]"]], ["I", ["i", "9"]]]])),
        ("set int to markup text", good(set=["obj", [["I", ["s", "[/foo]"]], ["MB", ["b", "y"]]]])),
        ("set hex to markup text", good(set=["obj", [["H", ["s", "[bold]zz[/]"]], ["MB", ["b", "y"]]]])),
        ("set float to markup text", good(set=["obj", [["F", ["s", "[/x]"]], ["MB", ["b", "y"]]]])),
        ("load missing file", good(load=["nofile", 0], set=["obj", [["I", ["i", "9"]]]])),
        ("load directory", good(load=["nofile", 1], set=["obj", [["I", ["i", "9"]]]])),
        ("save into missing directory", good(save=["nofile", 2], set=["obj", [["I", ["i", "9"]]]])),
        # names only mentioned in expressions are not options
        ("set mentioned-but-undefined", good(set=["obj", [["GHOST", ["b", "y"]], ["I", ["i", "9"]]]])),
        ("reset mentioned-but-undefined", good(reset=["list", [["s", "GHOST"], ["s", "I"]]])),
        # file names the operating system refuses outright (not an OSError in Python)
        ("load name with NUL", good(load=["nofile", 5], set=["obj", [["I", ["i", "9"]]]])),
        ("save name with NUL", good(save=["nofile", 5], set=["obj", [["I", ["i", "9"]]]])),
        ("load name with lone surrogate", good(load=["nofile", 6], set=["obj", [["I", ["i", "9"]]]])),
        ("save name with lone surrogate", good(save=["nofile", 6], set=["obj", [["I", ["i", "9"]]]])),
        ("load empty name", good(load=["nofile", 7], set=["obj", [["I", ["i", "9"]]]])),
        ("save empty name", good(save=["nofile", 7], set=["obj", [["I", ["i", "9"]]]])),
        # JSON the decoder gives up on for other reasons than syntax: a number / a nesting depth Python refuses
        ("huge integer literal", ["badjson", '{"version": 3, "set": {"I": ' + "1" * 5000 + "}}"]),
        ("deeply nested arrays", ["badjson", "[" * 100000]),
        ("bad json", ["badjson", "{"]),
        ("bad json 2", ["badjson", "garbage"]),
        ("bad json 3", ["badjson", '{"version": 3, "set": {"I": 9}'])
    ]
    for k in ("true", "null", "int", "str", "list", "emptystr", "float"):
        out.append(("line=%s" % k, ["nonobj", k]))
    return out


def _is_obj(text):
    try:
        return isinstance(loads_big(text), dict)
    except ValueError:
        return False


def concrete(line, paths, nofiles, rev_ids):
    if line[0] == "badjson":
        return line[1]
    if line[0] == "nonobj":
        return json.dumps(KINDS[line[1]][1])
    r = line[1]
    c = {}
    if r["ver"][0] == "ok":
        c["version"] = r["ver"][1]
    elif r["ver"][1] != "missing":
        c["version"] = KINDS[r["ver"][1]][1]
    for key in ("load", "save"):
        p = r[key]
        if p[0] == "null":
            c[key] = None
        elif p[0] == "path":
            c[key] = paths[p[1] - 1]
        elif p[0] == "bad":
            c[key] = KINDS[p[1]][1]
        elif p[0] == "nofile":
            c[key] = nofiles[p[1]]
    if r["set"][0] == "bad":
        c["set"] = KINDS[r["set"][1]][1]
    elif r["set"][0] == "obj":
        c["set"] = {n: (HUGE_HEX if jv == ["s", HUGE_HEX_ABSTRACT] else servercheck.json_value(jv)) for n, jv in r["set"][1]}
    if r["reset"][0] == "bad":
        c["reset"] = KINDS[r["reset"][1]][1]
    elif r["reset"][0] == "list":
        c["reset"] = [(rev_ids.get(e[1], e[1]) if e[0] == "s" else KINDS[e[1]][1]) for e in r["reset"][1]]
    return json.dumps(c)


def main(run):
    tier = run.tier
    item = program()
    text = ktree.render(item["prog"])
    info = ktree.sym_info(item["prog"])
    d = run.sub("srv15")
    os.makedirs(d)
    kpath = kc.write_text(os.path.join(d, "Kconfig"), text)
    k = kc.Kconfig(kpath)
    kc.reset_report(k)
    ids = servercheck.id_map(k, item["prog"])
    rev_ids = {v: kk for kk, v in ids.items()}
    p1, pfinal = os.path.join(d, "sdkconfig"), os.path.join(d, "sdkconfig.final")
    k.write_config(p1, save_old=False)
    with open(p1) as f:
        f1 = f.read()
    os.makedirs(os.path.join(d, "adir"))
    nofiles = {0: os.path.join(d, "does-not-exist"), 1: os.path.join(d, "adir"), 2: os.path.join(d, "no-such-dir", "sdkconfig"),
               3: os.path.join(d, "backup[/old]"), 4: os.path.join(d, "no[/such]dir", "sdkconfig"),
               5: os.path.join(d, "nul\x00name"), 6: os.path.join(d, "surrogate\ud800name"), 7: ""}
    paths = [p1, pfinal]
    sessions = []
    pre = good(set=["obj", [["S", ["s", "before"]], ["B", ["b", "y"]]]])
    post = good(set=["obj", [["H", ["s", "2f"]]]])
    table = rows()
    variants = []
    for name, line in table:
        variants.append((name, [pre, line, post]))
        if tier == "thorough" or hash(name) % 3 == 0:
            variants.append((name + " (twice)", [line, pre, line, post]))
    # a request that is refused (or whose file part fails) names a file; the next request saves to "the last used
    # path" (save: null): that is still the file the session started on
    savenull = good(save=["null"])
    for nm, ln in (
        ("unsupported version naming a save path", ["req", dict(good()[1], ver=["ok", 99], save=["path", 2])]),
        ("unsupported version naming a load path", ["req", dict(good()[1], ver=["ok", 0], load=["path", 2])]),
        ("non-integer version naming a save path", ["req", dict(good()[1], ver=["bad", "str"], save=["path", 2])]),
        ("load of a missing file", good(load=["nofile", 0])),
        ("save into a missing directory", good(save=["nofile", 2])),
    ):
        variants.append((nm + ", then save null", [pre, ln, savenull, post]))
    if tier == "thorough":
        rng = random.Random(run.seed)
        for _ in range(400):
            a, b = rng.choice(table), rng.choice(table)
            variants.append(("%s ; %s" % (a[0], b[0]), [pre, a[1], b[1], post]))
    # the version the server is started in (--version) is not the version of the requests it then gets: every
    # row also runs against a server started in protocol version 1 or 2
    kwide = kc.write_text(os.path.join(d, "wide", "Kconfig"), text + "\n" + WIDE_PADDING) if os.makedirs(os.path.join(d, "wide"), exist_ok=True) is None else None
    kw_ = kc.Kconfig(kwide)
    kc.reset_report(kw_)
    wide_rev = {v: kk for kk, v in servercheck.id_map(kw_, item["prog"] + [mk_config("ZZW%d" % i, "bool", prompt=Y) for i in range(1200)]).items()}
    started = []
    for k_, (name, lines) in enumerate(variants):
        started.append((name, lines, 3))
        if name in ("reset all", "reset menu", "reset unknown", "set unknown", "bad json"):
            started.append((name + " (wide tree: 1200 more options)", lines, "wide"))
        if " (twice)" not in name and " ; " not in name:
            v0 = 1 + k_ % 2
            started.append(("%s (server started with --version %d)" % (name, v0), lines, v0))
    for name, lines, ver0 in started:
        lines = lines + [good(save=["path", 2])]
        kc.write_text(p1, f1)
        if os.path.exists(pfinal):
            os.unlink(pfinal)
        wide = ver0 == "wide"
        conc = [concrete(ln, paths, nofiles, wide_rev if wide else rev_ids) for ln in lines]
        out, err, exc = servercheck.run_server_lines(kwide if wide else kpath, p1, 3 if wide else ver0, conc)
        obs = {"died": exc is not None, "died_at": len(out), "exception": "%s: %s" % (type(exc).__name__, str(exc)[:160]) if exc is not None else "", "nlines": len(out), "pure": True, "impure_line": "", "saved": [], "errors": []}
        msgs = []
        for ln in out:
            try:
                m = loads_big(ln)
                if not isinstance(m, dict):
                    raise ValueError("not an object")
                msgs.append(m)
            except ValueError:
                obs["pure"] = False
                obs["impure_line"] = ln[:120]
                msgs.append({})
        obs["errors"] = [bool(m.get("error")) for m in msgs[1:]]
        while len(obs["errors"]) < len(lines):
            obs["errors"].append(False)
        if os.path.exists(pfinal):
            with open(pfinal) as f:
                obs["saved"] = [[n, v, dd] for n, v, dd in storecheck.parse_sdkconfig(f.read(), info) if not n.startswith("ZZW")]
        with open(p1) as f:
            obs["first"] = [[n, v, dd] for n, v, dd in storecheck.parse_sdkconfig(f.read(), info) if not n.startswith("ZZW")]
        sessions.append({"name": name, "lines": lines, "final_path": 2, "obs": obs, "conc": conc})
        for junk in ("adir.old", "does-not-exist.old"):
            pj = os.path.join(d, junk)
            if os.path.isfile(pj):
                os.unlink(pj)
        if not os.path.isdir(os.path.join(d, "adir")):
            if os.path.exists(os.path.join(d, "adir")):
                os.unlink(os.path.join(d, "adir"))
            os.makedirs(os.path.join(d, "adir"))
    # the same through the real process with its default verbosity (diagnostics are rendered as console markup
    # then): rows whose text ends up in messages, and the lines the decoder refuses
    import subprocess
    import sys

    from ..common import REPO

    nsub = 0
    for s_ in sessions:
        if not any(x in s_["name"] for x in ("[", "markup", "huge integer", "deeply nested")) or " (twice)" in s_["name"] or " ; " in s_["name"] or "(server started" in s_["name"] or "(wide tree" in s_["name"]:
            continue
        kc.write_text(p1, f1)
        if os.path.exists(pfinal):
            os.unlink(pfinal)
        env = dict(os.environ, PYTHONPATH=REPO)
        env.pop("KCONFIG_REPORT_VERBOSITY", None)
        pr = subprocess.run([sys.executable, "-m", "kconfserver", "--kconfig", kpath, "--config", p1], input="".join(c + "\n" for c in s_["conc"]), capture_output=True, text=True, env=env, cwd=d)
        nsub += 1
        outl = pr.stdout.splitlines()
        ok_json = all(_is_obj(x) for x in outl)
        saved = []
        if os.path.exists(pfinal):
            with open(pfinal) as f:
                saved = [[n, v, dd] for n, v, dd in storecheck.parse_sdkconfig(f.read(), info)]
        if pr.returncode != 0 or len(outl) != len(s_["conc"]) + 1 or not ok_json or saved != s_["obs"]["saved"]:
            run.report(
                "P-Alive (real process, default verbosity) in session '%s': exit status %d, %d stdout lines for %d requests%s; last diagnostics: %s"
                % (s_["name"], pr.returncode, len(outl), len(s_["conc"]), "" if saved == s_["obs"]["saved"] else ", saved configuration differs from the quiet in-process run", pr.stderr.strip().splitlines()[-1][:160] if pr.stderr.strip() else ""),
                {"kconfig": text, "session": s_["name"], "lines": [c[:300] for c in s_["conc"]], "stderr_tail": pr.stderr[-600:]},
                {"P-Alive", "real-process", "row:" + s_["name"]},
            )
    run.cov["real_process_sessions"] = nsub
    run.add("evaluations", len(sessions))
    strings = set()
    ktree.strings_of(item["prog"], strings)
    ktree.strings_of([s["lines"] for s in sessions], strings)
    ktree.strings_of([s["obs"]["saved"] for s in sessions], strings)
    ktree.strings_of([s["obs"]["first"] for s in sessions], strings)
    tab = ktree.tables(strings)
    files = [[{"n": n, "v": v, "d": bool(dd), "u": bool(info.get(n, {}).get("type") == "bool" and v == "n")} for n, v, dd in storecheck.parse_sdkconfig(f1, info)], []]
    path = run.sub("srv15.json")
    with open(path, "w") as f:
        json.dump(
            {"tab": tab, "prog": {"prog": item["prog"], "ord": item["ord"], "files": files, "menus": servercheck.menu_contents(item["prog"])}, "sessions": [{k_: v for k_, v in s.items() if k_ not in ("conc", "name")} for s in sessions]},
            f,
        )
    res = run_tlc("MC_Server15", "MC_Server15.cfg", run, env={"SRV_DATA": path}, workers=16, timeout=3000, tag="srv15")
    os.unlink(path)
    if res.violated or not res.ok:
        raise MachineryFailure("MC_Server15: %s\n%s" % (res.violated, (res.error or res.out[-2500:])[:3000]))
    run.add("states", res.distinct)
    run.add("transitions", res.generated)
    bad = set()
    for v in extract_tuples(res.out, "R-|P-"):
        tag, i, a, b = v[0], v[1], v[2], v[3]
        s = sessions[i - 1]
        bad.add(i)
        row = s["name"].split(" (")[0].split(" ; ")[0]
        tags = {tag, "row:" + row}
        run.report(
            "%s in session '%s' %s: %s vs %s" % (tag, s["name"], s["conc"], str(a)[:300], str(b)[:300]),
            {"kconfig": text, "session": s["name"], "lines": s["conc"], "clause": tag, "expected": a, "observed": b, "stdout_lines": s["obs"]["nlines"], "exception": s["obs"]["exception"]},
            tags,
        )
    run.cov["traces_validated_against_impl"] = len(sessions) - len(bad)
    run.cov["distinct_nontrivial"] = len(table)
    run.cov["decision_table_rows"] = len(table)
    run.cov["exhaustive"] = True
    run.cov["rule"] = (
        "decision table: version / set / reset / load / save x 13 JSON kinds, set value kinds x 5 option types, reset element kinds, "
        "unsupported versions, unknown / invisible / out-of-range targets, unknown ids, unreadable and unwritable files, malformed and "
        "non-object lines (%d rows), each between two valid requests (some also repeated / combined) and followed by a save; every "
        "row is distinct and non-trivial" % len(table)
    )
    run.sample({"session": sessions[0]["name"], "lines": sessions[0]["conc"], "observed": sessions[0]["obs"]})
    run.sample({"session": sessions[-1]["name"], "lines": sessions[-1]["conc"], "observed": sessions[-1]["obs"]})
    run.assumptions += [
        "run in-process: an exception escaping run_server() is the process dying; stdout is the substituted stream",
        "a JSON number sent to a string option is left open (not sent); wrong-typed values inside `set` may be reported or silently ignored, but must not change the configuration",
    ]

"""C07 — all generated output formats describe the same configuration.

spec/KOutputs.tla says, per format, what each option and each deprecated alias
must read as (with the format's documented encoding of n); TLC enumerates every
configuration of every (program, rename table) pair (MC_Outputs.tla), compares
with what format readers find in the files written by the real generators, and
evaluates the cross-format agreement on the observations themselves."""
import json
import os
import random
import re

from .. import evalcheck, kc, ktree, lattice, storecheck
from ..common import MachineryFailure
from ..tlc import extract_tuples, run_tlc

ABSENT = "absent"


def canon(typ, tok, tab):
    """Canonical abstract value of a plain (sdkconfig-style) token."""
    if typ in ("int", "hex", "float"):
        src = {"int": "num10", "hex": "num16", "float": "numf"}[typ]
        if tok in tab[src]:
            return str(tab[src][tok])
        return "<nan:%s>" % tok
    return tok


def c_canon(typ, tok, tab):
    if tok == "":
        return "<nan:>"  # the option has no value: an empty token in every format
    n, _ = evalcheck.c_number(tok, typ, tab)
    if n in (evalcheck.BAD_N, evalcheck.ABSENT_N):
        return "<bad:%s>" % tok
    return str(n)


def unq(tok):
    if len(tok) >= 2 and tok[0] == '"' and tok[-1] == '"':
        return evalcheck.unescape(tok[1:-1])
    return "<unquoted:%s>" % tok


def last_wins(lines):
    m = {}
    for old, new, inv in lines:
        m[old] = (new, inv)
    return m


def rename_text(lines):
    return "".join("CONFIG_%s %sCONFIG_%s\n" % (o, "!" if inv else "", n) for o, n, inv in lines)


PREV_EXTRA = """
config ZZ_GONE
    bool "an option the previous build still had"
    default y

config ZZ_GONE_S
    string "another one"
    default "s"
"""


def observe(run, kconf, names, info, lines, tab, first=0, prev=None):
    """All five outputs of the instance as it is.  `first` rotates which generator runs first (and therefore has to
    evaluate the options itself instead of finding the values another generator left cached).  `prev`: a function that
    fills the dependency directory the way the previous build left it (same configuration, a tree that still had
    two more options), or None for a fresh directory."""
    import kconfgen.core as kg

    d = run.scratch
    p = os.path.join(d, "c07_out")
    got = {}

    def g_sdk():
        kconf.write_config(p, save_old=False, write_deprecated=True)
        with open(p, newline="") as f:
            got["text"] = f.read()

    def g_hdr():
        kconf.write_autoconf(p, write_deprecated=True)
        with open(p) as f:
            got["hdr"] = dict(re.findall(r"^#define CONFIG_(\w+) (.*)$", f.read(), re.M))

    def g_cm():
        kg.write_cmake(kconf, p, write_deprecated=True)
        with open(p) as f:
            got["cm"] = dict(re.findall(r'^set\(CONFIG_(\w+) "(.*)"\)$', f.read(), re.M))

    def g_js():
        got["js"] = kg.get_json_values(kconf)

    def g_ac():
        dd_ = os.path.join(d, "c07_deps")
        if prev is not None:
            prev(dd_)
        kconf.sync_deps(dd_)
        with open(os.path.join(dd_, "auto.conf")) as f:
            got["ac"] = dict(re.findall(r"^CONFIG_(\w+)=(.*)$", f.read(), re.M))

    gens = [g_sdk, g_hdr, g_cm, g_js, g_ac]
    for g in gens[first % 5 :] + gens[: first % 5]:
        g()
    text, hdr, cm, js, ac = got["text"], got["hdr"], got["cm"], got["js"], got["ac"]
    dd = os.path.join(d, "c07_deps")
    sdk = {ln[0]: ln[1] for ln in storecheck.parse_sdkconfig(text, info)}
    block = {}
    in_dep = False
    for raw in text.split("\n"):
        s = raw.strip()
        if s == "# Deprecated options for backward compatibility":
            in_dep = True
            continue
        if s == "# End of deprecated options":
            in_dep = False
            continue
        if in_dep:
            m = evalcheck._UNSET.match(s)
            if m:
                block[m.group(1)] = "n"
                continue
            m = evalcheck._SET.match(s)
            if m:
                block[m.group(1)] = m.group(2)
    import shutil

    shutil.rmtree(dd, ignore_errors=True)
    os.unlink(p)
    # names no output may carry: anything that is neither a defined option nor an alias of the rename table
    known = set(names) | {o for o, _n, _i in lines}
    extra = {
        "sdkconfig": sorted(set(sdk) - known), "header": sorted(set(hdr) - known), "cmake": sorted(set(cm) - known),
        "json": sorted(set(js) - known), "auto.conf": sorted(set(ac) - known),
    }
    got["extra"] = {k_: v_ for k_, v_ in extra.items() if v_}
    opts = []
    for n in names:
        t = info[n]["type"]
        # sdkconfig
        if n in sdk:
            o_sdk = canon(t, sdk[n], tab) if t != "bool" else sdk[n]
        else:
            o_sdk = ABSENT
        # header
        if t == "bool":
            o_h = "y" if n in hdr else "n"
            if n in hdr and hdr[n] != "1":
                o_h = "<bad:%s>" % hdr[n]
        elif n not in hdr:
            o_h = ABSENT
        elif t == "string":
            o_h = unq(hdr[n])
        else:
            o_h = c_canon(t, hdr[n], tab)
        # cmake
        if n not in cm:
            o_c = ABSENT
        elif t == "bool":
            o_c = {"": "n", "y": "y"}.get(cm[n], "<bad:%s>" % cm[n])
        elif t == "string":
            o_c = evalcheck.unescape(cm[n])
        else:
            o_c = canon(t, cm[n], tab)
        # json
        if n not in js:
            o_j = ABSENT
        elif t == "bool":
            o_j = "y" if js[n] is True else ("n" if js[n] is False else "<bad:%r>" % js[n])
        elif t == "string":
            o_j = js[n] if isinstance(js[n], str) else "<bad:%r>" % js[n]
        elif js[n] is None:
            o_j = "<nan:>"
        elif t == "float":
            o_j = str(tab["numf"].get(str(float(js[n])), "<bad:%r>" % js[n]))
        else:
            o_j = str(js[n])
        # auto.conf
        if t == "bool":
            o_a = "y" if ac.get(n) == "y" else ("n" if n not in ac else "<bad:%s>" % ac[n])
        elif n not in ac:
            o_a = ABSENT
        elif t == "string":
            o_a = unq(ac[n])
        else:
            o_a = canon(t, ac[n], tab)
        opts.append([o_sdk, o_h, o_c, o_j, o_a])
    aliases = []
    for old, (new, inv) in last_wins(lines).items():
        t = info.get(new, {}).get("type")
        if old in block:
            a_s = block[old] if t in ("bool", None) else (unq(block[old]) if t == "string" else canon(t, block[old], tab))
        else:
            a_s = ABSENT
        if old in hdr:
            m = re.fullmatch(r"(!?)CONFIG_(\w+)", hdr[old])
            if not m:
                # a literal: read like the option's own #define
                if t == "bool":
                    a_h = "y" if hdr[old] == "1" else "<bad:%s>" % hdr[old]
                elif t == "string":
                    a_h = unq(hdr[old])
                elif t:
                    a_h = c_canon(t, hdr[old], tab)
                else:
                    a_h = "<bad:%s>" % hdr[old]
            elif m.group(2) not in hdr:
                # the alias expands to an undefined name: 0 in #if context
                a_h = ("y" if m.group(1) else "n") if t == "bool" else "<bad:%s>" % hdr[old]
            else:
                tgt = hdr[m.group(2)]
                tt = info.get(m.group(2), {}).get("type")
                if tt == "bool":
                    truth = tgt == "1"
                    a_h = ("n" if truth else "y") if m.group(1) else ("y" if truth else "n")
                elif m.group(1):
                    a_h = "<negated-nonbool>"
                elif tt == "string":
                    a_h = unq(tgt)
                else:
                    a_h = c_canon(tt, tgt, tab)
        else:
            a_h = "n" if t == "bool" else ABSENT
        if old in cm:
            a_c = ({"": "n", "y": "y"}.get(cm[old], "<bad:%s>" % cm[old]) if t == "bool" else (evalcheck.unescape(cm[old]) if t == "string" else canon(t, cm[old], tab))) if t else cm[old]
        else:
            a_c = ABSENT
        aliases.append([old, a_s, a_h, a_c])
    return {"opts": opts, "aliases": aliases, "extra": got["extra"]}


def rename_tables(prog):
    info = ktree.sym_info(prog)
    bools = [n for n, i in info.items() if i["type"] == "bool" and not i["choice"]]
    nonb = [n for n, i in info.items() if i["type"] != "bool"]
    tabs = []
    if bools:
        b = bools[-1] if "T" not in bools else "T"
        b2 = bools[0]
        tabs += [
            [["OLD1", b, False]],
            [["OLD1", b, True], ["OLD2", b, False]],
            [["OLD2", b, False], ["OLD1", b, True]],
            [["OLD1", b2, False], ["OLD1", b, True], ["OLD3", b, True]],
            [["OLD1", b, False], ["OLD2", b, False], ["OLD3", b, True], ["OLDX", "NOPE", False]],
        ]
    if nonb:
        n = nonb[-1] if "T" not in nonb else "T"
        tabs += [[["OLDN", n, False]], [["OLDN", n, True], ["OLDM", n, False]]]
    if bools and nonb:
        tabs.append([["OLD1", bools[-1], True], ["OLDN", nonb[-1], False], ["OLD2", bools[-1], False]])
    return tabs


def main(run):
    tier = run.tier
    lat = [p for p in lattice.prec_lattice(tier) if p["family"] in ("F-prec", "F-choice")]
    if tier == "quick":
        lat = lat[::5]
        gen = ktree.generate(run.seed + 1300, 25)
        cap = 40
    else:
        gen = ktree.generate(run.seed + 1300, 500)
        cap = 150
    # options that have no value at all (a prompt, no default, no user value), with aliases
    novalue = []
    for typ in ("hex", "int", "string"):
        t_ = ktree.mk_config("T", typ, prompt=["y"])
        o_ = ktree.mk_config("O", "bool", prompt=["y"], defaults=[{"v": ["y"], "c": ["y"]}])
        novalue.append({"prog": [o_, t_], "ord": [["s", "O"], ["s", "T"]], "vars": [{"n": "T", "kind": "sym", "cands": [ktree.NOVAL, {"hex": "0x1F", "int": "3", "string": "x"}[typ]]}], "family": "F-novalue"})
    items = novalue + lat + gen
    cases, total = [], 0
    bad_presence = []
    strings = set()
    for it in items:
        ktree.strings_of(it["prog"], strings)
        ktree.strings_of(it.get("vars", []), strings)
    for v in lattice.WIDE_USERS.values():
        strings.update(v)
    tab = ktree.tables(strings)
    for k, it in enumerate(items):
        prog = it["prog"]
        info = ktree.sym_info(prog)
        names = ktree.sym_names(prog)
        text = ktree.render(prog)
        rng = random.Random("%d/o%d" % (run.seed, k))
        vars_ = storecheck_trim(it.get("vars") or ktree.user_candidates(prog, rng, cap), cap)
        tabs = rename_tables(prog)
        if tier == "quick":
            tabs = tabs[k % 2 :: 2] or tabs
        for lines in tabs:
            # the previous build of the same project: two more options in the tree, same rename file
            kprev = kc.build(text + PREV_EXTRA, run.scratch, renames=rename_text(lines))
            kconf = kc.build(text, run.scratch, renames=rename_text(lines))
            outs = []
            err = None
            all_asgs = list(ktree.assignments(vars_))
            for ai, asg in enumerate(all_asgs):
                # entered from another, fully evaluated configuration; a different generator goes first each time
                if len(all_asgs) > 1:
                    evalcheck.apply_assignment(kconf, info, vars_, rng.choice(all_asgs))
                    for s_ in kconf.unique_defined_syms:
                        s_.str_value
                evalcheck.apply_assignment(kconf, info, vars_, asg)
                prev = None
                if ai % 2 == 0:  # every other configuration: the dependency directory is the previous build's

                    def prev(dd_, asg=asg):
                        evalcheck.apply_assignment(kprev, info, vars_, asg)
                        kprev.sync_deps(dd_)

                try:
                    outs.append(observe(run, kconf, names, info, lines, tab, first=ai, prev=prev))
                    if outs[-1]["extra"]:
                        run.report(
                            "an output names options that are not defined (P-SamePresence): %s under %s (%s dependency directory)" % (outs[-1]["extra"], {k_: v_ for k_, v_ in asg.items() if v_ != ktree.NOVAL}, "reused" if prev else "fresh"),
                            {"kconfig": text, "renames": lines, "assignment": asg, "undefined_names_per_output": outs[-1]["extra"], "previous_build_tree": (text + PREV_EXTRA) if prev else None},
                            {"P-SamePresence"} | set(outs[-1]["extra"]),
                        )
                        bad_presence.append(1)
                    outs[-1].pop("extra")
                except Exception as e:
                    err = (asg, "%s: %s" % (type(e).__name__, str(e)[:200]))
                    break
                total += 1
            kc.reset_report(kconf)
            kc.reset_report(kprev)
            if err:
                run.report("a generator raised %s under %s" % (err[1], err[0]), {"kconfig": text, "renames": lines, "assignment": err[0], "exception": err[1]}, {"exception"})
                continue
            cases.append({"prog": prog, "ord": it["ord"], "vars": vars_, "renames": lines, "outs": outs, "text": text})
    run.add("evaluations", total)
    bad = set()
    for b in range(0, len(cases), 250):
        batch = cases[b : b + 250]
        path = run.sub("outs_%d.json" % b)
        with open(path, "w") as f:
            json.dump({"tab": tab, "progs": [{k: v for k, v in c.items() if k != "text"} for c in batch]}, f)
        res = run_tlc("MC_Outputs", "MC_Outputs.cfg", run, env={"OUT_DATA": path}, workers=16, timeout=3000, tag="o%d" % b)
        os.unlink(path)
        if res.violated or not res.ok:
            raise MachineryFailure("MC_Outputs: %s\n%s" % (res.violated, (res.error or res.out[-2500:])[:3000]))
        run.add("states", res.distinct)
        run.add("transitions", res.generated)
        for v in extract_tuples(res.out, "R-|P-"):
            tag, t, i, a, bb = v[0], v[1], v[2], v[3], v[4]
            case = batch[t - 1]
            asg = evalcheck.case_at(case, i)
            bad.add((b + t, i))
            tags = {tag}
            if tag in ("R-aliases", "P-AliasAgree"):
                for al in list(a) + list(bb):
                    if isinstance(al, list) and len(al) == 4:
                        new, inv = last_wins(case["renames"]).get(al[0], (None, False))
                        if inv:
                            tags.add("inverted-alias")
                        if al[2] == "n" and al[1] == "y":
                            tags.add("header-undefined-vs-y")
            run.report(
                "%s under %s with renames %s: %s / %s" % (tag, {k: v for k, v in asg.items() if v != ktree.NOVAL}, case["renames"], a, bb),
                {"kconfig": case["text"], "renames": case["renames"], "assignment": asg, "clause": tag, "expected_or_missing": a, "observed_or_extra": bb},
                tags,
            )
    run.cov["traces_validated_against_impl"] = total - len(bad) - len(bad_presence)
    run.cov["distinct_nontrivial"] = total
    run.cov["programs"] = len(cases)
    run.cov["reused_dependency_directory"] = "every other configuration: the directory holds the previous build's sync (same configuration, tree with two more options)"
    run.cov["exhaustive"] = True
    run.cov["rule"] = (
        "each (program, rename table) pair x all assignments (capped): programs from the F-prec / F-choice lattices and generated; rename "
        "tables: one alias, inverted before plain, plain before inverted, duplicate old name (last wins), three aliases with an alias "
        "of an undefined option, aliases of non-bool options (also marked '!'); sdkconfig (+deprecated block), header (aliases evaluated "
        "with C semantics), CMake, JSON and auto.conf read back by format readers; every pair is distinct and counts as non-trivial"
    )
    run.sample({"kconfig": cases[0]["text"], "renames": cases[0]["renames"], "observed": cases[0]["outs"][0]})
    run.sample({"kconfig": cases[-1]["text"], "renames": cases[-1]["renames"], "observed": cases[-1]["outs"][0]})
    run.assumptions += [
        "order of entries inside a file is not compared (CONFIGS_LIST, JSON key order, header comments are left open)",
        "the generators are called in-process (write_config/write_autoconf/sync_deps, kconfgen.write_cmake/get_json_values)",
    ]


def storecheck_trim(vars_, cap):
    vars_ = [dict(v, cands=list(v["cands"])) for v in vars_]

    def total():
        t = 1
        for v in vars_:
            t *= len(v["cands"])
        return t

    k = 0
    while total() > cap and k < len(vars_):
        if len(vars_[k]["cands"]) > 2:
            vars_[k]["cands"].pop()
        else:
            k += 1
    k = 0
    while total() > cap and k < len(vars_):
        vars_[k]["cands"] = vars_[k]["cands"][:1]
        k += 1
    return vars_

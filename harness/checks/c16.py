"""C16 — menuconfig never drops unsaved edits and knows when it is clean.

spec/KMenu.tla: the session state (user values, picks, the per-option record of
what the main sdkconfig said, unknown names, the file on disk), the front
end's edit actions, try_load, save + reload, and needs_save().  TLC explores
all action sequences from each initial file (MC_Menu16.tla) with
CleanMeansSaved / SavedMeansClean as invariants and emits the histories; each
is replayed on the real MenuConfigState driven through the application's own
handlers; TLC (MC_Menu16Check.tla) compares needs_save() and the values at
every step and evaluates both clauses on the observations (the bytes of the
file against what write_config would write)."""
import json
import os
import random

from .. import evalcheck, histcheck, kc, ktree, lattice, menucheck, servercheck, storecheck
from ..common import MachineryFailure
from ..tlc import extract_tuples, format_trace, run_tlc


def spec_lines(parsed, info):
    return [{"n": n, "v": v, "d": bool(d), "u": bool(info.get(n, {}).get("type") == "bool" and v == "n")} for n, v, d in parsed]


def prepare(run, it, rng, pi):
    prog = it["prog"]
    info = ktree.sym_info(prog)
    text = ktree.render(prog)
    vars_ = it.get("vars") or ktree.user_candidates(prog, rng, 10**6)
    from .c07 import storecheck_trim

    asgs = list(ktree.assignments(storecheck_trim(vars_, 30)))
    k = kc.build(text, run.scratch)
    d = run.sub("menu_%d" % pi)
    os.makedirs(d)

    def tool_text(asg):
        from esp_menuconfig.idf_headers import idf_sdkconfig_header

        evalcheck.apply_assignment(k, info, vars_, asg)
        p = os.path.join(d, "tmp_tool")
        k.write_config(p, header=idf_sdkconfig_header(), save_old=False)
        with open(p, newline="") as f:
            t = f.read()
        os.unlink(p)
        return t

    t_default = tool_text(asgs[0])
    t_other = tool_text(asgs[len(asgs) // 2])
    kc.reset_report(k)
    settable = [v for v in vars_ if v["kind"] == "sym"]
    first = settable[0] if settable else None
    renames = None
    inits = [{"text": t_default, "tool": True}, {"text": t_other, "tool": True}]
    inits.append({"text": t_other + "CONFIG_NO_SUCH_OPTION=y\n", "tool": False})
    if first:
        t = info[first["n"]]["type"]
        val = [c for c in first["cands"] if c != ktree.NOVAL][0]
        line = histcheck.file_text([{"n": first["n"], "v": val, "t": t}])
        inits.append({"text": t_default + line + line, "tool": False})  # duplicate entry
        inits.append({"text": line, "tool": False})  # hand-written, one line
    # hand-edited with deprecated names: the entry of one option is spelled through an alias (plain for an int,
    # inverted for a bool), with a value that is not the default
    ren_tab, ren_text = {}, ""
    pick_b = next((v for v in settable if info[v["n"]]["type"] == "bool" and not info[v["n"]]["choice"]), None)
    pick_n = next((v for v in settable if info[v["n"]]["type"] == "int"), None)

    def without(text, name):
        out, lines = [], text.split("\n")
        for k_, ln in enumerate(lines):
            if ln.startswith("CONFIG_%s=" % name) or ln == "# CONFIG_%s is not set" % name:
                if out and out[-1].strip() == "# default:":
                    out.pop()
                continue
            out.append(ln)
        return "\n".join(out)

    if pick_b:
        ren_tab["OLDINV_" + pick_b["n"]] = {"new": pick_b["n"], "inv": True}
        ren_text += "CONFIG_OLDINV_%s !CONFIG_%s\n" % (pick_b["n"], pick_b["n"])
        val = [c for c in pick_b["cands"] if c != ktree.NOVAL][0]
        inits.append({"text": without(t_default, pick_b["n"]) + ("# CONFIG_OLDINV_%s is not set\n" % pick_b["n"] if val == "y" else "CONFIG_OLDINV_%s=y\n" % pick_b["n"]), "tool": False})
    if pick_n:
        ren_tab["OLD_" + pick_n["n"]] = {"new": pick_n["n"], "inv": False}
        ren_text += "CONFIG_OLD_%s CONFIG_%s\n" % (pick_n["n"], pick_n["n"])
        val = [c for c in pick_n["cands"] if c != ktree.NOVAL and c.strip() == c and c != ""][:1]
        if val:
            inits.append({"text": without(t_default, pick_n["n"]) + "CONFIG_OLD_%s=%s\n" % (pick_n["n"], val[0]), "tool": False})
    for i_ in inits:
        i_["lines"] = spec_lines(storecheck.parse_sdkconfig(i_["text"], info), info)
    # alternate files for 'load'
    files = [t_other]
    if first:
        files.append(histcheck.file_text([{"n": first["n"], "v": [c for c in first["cands"] if c != ktree.NOVAL][-1], "t": info[first["n"]]["type"]}]))
    acts = []
    for v in vars_:
        if v["kind"] == "sym":
            t = info[v["n"]]["type"]
            for val in [c for c in v["cands"] if c != ktree.NOVAL][:2]:
                if t == "hex" and not val.lower().startswith("0x"):
                    continue
                if t != "string" and val.strip() != val:
                    continue
                acts.append({"a": "set", "n": v["n"], "v": val})
        else:
            for m in ktree.members(prog, v["n"])[:3]:
                acts.append({"a": "set", "n": m, "v": "y"})
            acts.append({"a": "resetch", "c": v["n"], "m": ktree.members(prog, v["n"])[0]})
    for v in settable[:3]:
        acts.append({"a": "reset", "n": v["n"]})
    menus = servercheck.menu_contents(prog)
    for mid in list(menus)[:2]:
        acts.append({"a": "resetmenu", "m": mid})
    for fi in range(len(files)):
        acts.append({"a": "loadalt", "f": fi + 1})
    acts.append({"a": "save"})
    return {
        "prog": prog,
        "ord": it["ord"],
        "text": text,
        "info": info,
        "dir": d,
        "inits": inits,
        "files_text": files,
        "files": [spec_lines(storecheck.parse_sdkconfig(f, info), info) for f in files],
        "acts": acts,
        "menus": menus,
        "renames": ren_tab,
        "renames_text": ren_text or None,
    }


def replay(run, p, f0, hist, idx, blind_after=None):
    """`blind_after` (a trace of the same history): nothing is read between the actions - the front end only
    evaluates the rows it shows - and the session is observed once at the end; the earlier observations are
    those of the trace given."""
    names = ktree.sym_names(p["prog"])
    conf = os.path.join(p["dir"], "sdkconfig_%d" % idx)
    for junk in (conf, conf + ".old"):
        if os.path.exists(junk):
            os.unlink(junk)
    if f0 > 0:
        kc.write_text(conf, p["inits"][f0 - 1]["text"])
    paths = []
    for j, t in enumerate(p["files_text"]):
        pp = os.path.join(p["dir"], "alt_%d" % j)
        kc.write_text(pp, t)
        paths.append(pp)
    tr = {"f0": f0, "h": hist, "err": False, "obs": []}
    try:
        state, stub = menucheck.start_session(run, p["text"], conf, renames=p.get("renames_text"))
        hand = f0 > 0 and not p["inits"][f0 - 1]["tool"]
        al = {o: (r["new"], r["inv"]) for o, r in p["renames"].items()}
        if blind_after is not None:
            tr["blind"] = True
            for k in hist:
                menucheck.do_action(run, state, stub, p["prog"], p["acts"][k - 1], p["files_text"], paths)
            tr["obs"] = blind_after["obs"][:-1] + [menucheck.observe(run, state, names, p["info"], lenient=hand and not state.saved, aliases=al)]
        else:
            tr["obs"].append(menucheck.observe(run, state, names, p["info"], lenient=hand, aliases=al))
        for k in hist if blind_after is None else []:
            menucheck.do_action(run, state, stub, p["prog"], p["acts"][k - 1], p["files_text"], paths)
            tr["obs"].append(menucheck.observe(run, state, names, p["info"], lenient=hand and not state.saved, aliases=al))
    except Exception as e:
        import traceback

        from ..common import reraise_if_harness

        reraise_if_harness(e)
        tb = traceback.extract_tb(e.__traceback__)
        tr["err"] = True
        tr["exception"] = "%s: %s" % (type(e).__name__, str(e)[:200])
        tr["where"] = ["%s:%d %s" % (os.path.basename(fr.filename), fr.lineno, fr.name) for fr in tb[-4:]]
        while len(tr["obs"]) < len(hist) + 1:
            tr["obs"].append({"vals": [], "needs_save": False, "file_is_render": False, "file_diff": []})
    for junk in (conf, conf + ".old"):
        if os.path.exists(junk):
            os.unlink(junk)
    return tr


def main(run):
    tier = run.tier
    rng = random.Random(run.seed)
    lat = [p for p in lattice.prec_lattice(tier) if p["family"] in ("F-prec", "F-choice", "F-nest")]
    if tier == "quick":
        items = lat[::25] + ktree.generate(run.seed + 4100, 8)
        maxlen, cap, nwalk = 3, 350, 12
    else:
        items = lat[::3] + ktree.generate(run.seed + 4100, 150)
        maxlen, cap, nwalk = 3, 3000, 150
    nlong = 0
    nblind = [0]
    progs = [prepare(run, it, random.Random("%d/m%d" % (run.seed, pi)), pi) for pi, it in enumerate(items)]
    strings = set()
    for p in progs:
        ktree.strings_of(p["prog"], strings)
        ktree.strings_of(p["acts"], strings)
        ktree.strings_of([i_["lines"] for i_ in p["inits"]], strings)
        ktree.strings_of(p["files"], strings)
    tab = ktree.tables(strings)

    def payload(with_traces):
        out = []
        for p in progs:
            e = {"prog": p["prog"], "ord": p["ord"], "inits": [{"lines": i_["lines"], "tool": i_["tool"]} for i_ in p["inits"]], "files": p["files"], "acts": p["acts"], "menus": p["menus"], "renames": p["renames"]}
            if with_traces:
                e["traces"] = [{k: v for k, v in tr.items() if k not in ("exception", "where", "blind")} for tr in p["traces"]]
            out.append(e)
        return out

    path = run.sub("menu16.json")
    with open(path, "w") as f:
        json.dump({"tab": tab, "maxlen": maxlen, "progs": payload(False)}, f)
    res = run_tlc("MC_Menu16", "MC_Menu16.cfg", run, env={"MENU_DATA": path}, workers=1, timeout=3000, tag="m16")
    model_violation = None
    if res.violated:
        model_violation = res.violated
        run.note("model: %s is violated in KMenu (%s); the histories emitted so far are replayed to confirm or refute it" % (res.violated, format_trace(res)[-600:]))
    elif not res.ok:
        raise MachineryFailure("MC_Menu16: %s" % (res.error or res.out[-2500:])[:3000])
    run.add("states", res.distinct)
    run.add("transitions", res.generated)
    hists = [[] for _ in progs]
    for v in extract_tuples(res.out, 'H"'):
        hists[v[1] - 1].append((v[2], v[3]))
    if res.violated and res.trace:
        # the counterexample itself is a history: replay it as well
        from ..tlaval import parse_state

        last = parse_state(res.trace[-1][1])
        hists[last["t"] - 1].append((last["f0"], last["hist"]))
    total = 0
    for p, hs in zip(progs, hists):
        if len(hs) > cap:
            keep = [h for h in hs if any(p["acts"][k - 1]["a"] in ("save", "loadalt") for k in h[1])]
            rest = [h for h in hs if h not in keep]
            if len(keep) > cap:
                step = len(keep) / float(cap)
                keep = [keep[int(j * step)] for j in range(cap)]
            room = cap - len(keep)
            if room > 0 and rest:
                step = max(1.0, len(rest) / float(room))
                keep += [rest[int(j * step)] for j in range(min(room, len(rest)))]
            hs = keep
        # beyond the exhaustive bound: seeded walks of 4-7 actions from every initial file (validated like the others)
        wr = random.Random("%d/walk16/%d" % (run.seed, progs.index(p)))
        hs = list(hs) + [(wr.randrange(len(p["inits"]) + 1), [wr.randrange(len(p["acts"])) + 1 for _ in range(wr.randint(4, 7))]) for _ in range(nwalk)]
        nlong += nwalk
        p["traces"] = [replay(run, p, f0, h, j) for j, (f0, h) in enumerate(hs)]
        # the same sessions without anything being read between the actions (sessions with a save, two actions or more)
        blind = [(j, tr) for j, tr in enumerate(p["traces"]) if not tr["err"] and len(tr["h"]) >= 2 and any(p["acts"][k - 1]["a"] == "save" for k in tr["h"])]
        if len(blind) > cap // 2:
            step = len(blind) / float(cap // 2)
            blind = [blind[int(j * step)] for j in range(cap // 2)]
        p["traces"] += [replay(run, p, tr["f0"], tr["h"], 100000 + j, blind_after=tr) for j, tr in blind]
        nblind[0] += len(blind)
        total += len(hs) + len(blind)
        for tr in p["traces"]:
            if tr["err"]:
                run.report(
                    "the session raised %s after %s (initial file %d)" % (tr["exception"], [p["acts"][k - 1] for k in tr["h"]], tr["f0"]),
                    {"kconfig": p["text"], "initial_file": p["inits"][tr["f0"] - 1]["text"] if tr["f0"] else None, "actions": [p["acts"][k - 1] for k in tr["h"]], "exception": tr["exception"], "where": tr["where"]},
                    {"exception", tr["exception"].split(":")[0]} | {w.split(" ")[-1] for w in tr["where"]},
                )
    run.add("evaluations", total)
    run.cov["long_walks"] = nlong
    run.cov["sessions_replayed_without_intermediate_reads"] = nblind[0]
    with open(path, "w") as f:
        json.dump({"tab": tab, "maxlen": maxlen, "progs": payload(True)}, f)
    res2 = run_tlc("MC_Menu16Check", "MC_Menu16Check.cfg", run, env={"MENU_DATA": path}, workers=16, timeout=3000, tag="m16c")
    os.unlink(path)
    if res2.violated or not res2.ok:
        raise MachineryFailure("MC_Menu16Check: %s\n%s" % (res2.violated, (res2.error or res2.out[-2500:])[:3000]))
    run.add("states", res2.distinct)
    run.add("transitions", res2.generated)
    bad = set()
    for v in extract_tuples(res2.out, "R-|P-"):
        tag, t, i, k_, a, b = v[0], v[1], v[2], v[3], v[4], v[5]
        p = progs[t - 1]
        tr = p["traces"][i - 1]
        bad.add((t, i))
        acts = [p["acts"][k - 1] for k in tr["h"]]
        init = p["inits"][tr["f0"] - 1] if tr["f0"] else None
        tags = {tag}
        if init is not None and not init["tool"]:
            tags.add("hand-edited-initial-file")
        if tr.get("blind"):
            tags.add("nothing-read-between-actions")
        run.report(
            "%s at step %d of %s%s (initial file: %s): %s vs %s" % (tag, k_, acts, " with nothing read between the actions" if tr.get("blind") else "", "absent" if init is None else ("tool-written" if init["tool"] else "hand-edited"), str(a)[:300], str(b)[:300]),
            {"kconfig": p["text"], "initial_file": init["text"] if init else None, "actions": acts, "alt_files": p["files_text"], "clause": tag, "step": k_, "expected": a, "observed": b},
            tags,
        )
    if model_violation and not bad:
        raise MachineryFailure("KMenu violates %s but the implementation does not reproduce it: the model is wrong\n%s" % (model_violation, format_trace(res)[-2500:]))
    run.cov["traces_validated_against_impl"] = total - len(bad)
    run.cov["distinct_nontrivial"] = total
    run.cov["programs"] = len(progs)
    run.cov["exhaustive"] = tier == "thorough"
    run.cov["rule"] = (
        "per program up to 7 initial files (absent, two tool-written, hand-edited with an unknown name / a duplicate entry / a single line / an entry spelled through a plain or an inverted deprecated name) x every "
        "transition of the TLC exploration of action sequences <= %d (set through the front end's guards, member picks, reset option / "
        "choice / menu, load of an alternate tool-written or hand-written file, save + reload); sessions containing save or load are kept "
        "first when capping; every session is distinct" % maxlen
    )
    ex = progs[0]["traces"][-1]
    run.sample({"kconfig": progs[0]["text"], "initial_file_index": ex["f0"], "actions": [progs[0]["acts"][k - 1] for k in ex["h"]], "observed": ex["obs"]})
    run.assumptions += [
        "the Textual application is not started: its handlers (action_save, _do_save, _handle_load_result, _apply_input) are called on a stand-in object holding the real MenuConfigState",
        "files are compared as bytes against write_config(header=IDF header); a hand-edited initial file that has not been saved yet is compared by its effective entries (last assignment per option, no unknown names)",
    ]

"""C09 — cyclic definitions are rejected; accepted trees always evaluate.

spec/KDeps.tla defines the dependency graph of a program (who reads whom,
including choice membership through visibility -> selection -> member values)
and its cycles.  Base programs (one per dependency-edge kind, lattice slices,
generated) get one extra edge of every kind between every ordered pair of
options; TLC computes the verdict for each variant (MC_Deps.tla) and compares
it with what the real loader does in several constructions of the same text;
accepted variants are then evaluated in several configurations."""
import copy
import json
import os
import random
import re

from .. import evalcheck, kc, ktree, lattice
from ..common import MachineryFailure
from ..tlc import extract_tuples, run_tlc

Y = ["y"]


def cond_on(info, a):
    t = info[a]["type"]
    if t == "bool":
        return ["s", a]
    if t in ("int",):
        return [">", ["s", a], ["c", "0"]]
    if t == "hex":
        return [">", ["s", a], ["c", "0x0"]]
    if t == "float":
        return None
    return ["!=", ["s", a], ["c", ""]]


def andc(c, extra):
    return extra if c == Y else ["&&", c, extra]


def find(prog, name):
    for e in ktree.walk(prog):
        if e["k"] == "config" and e["name"] == name:
            return e
    return None


def find_choice(prog, cid):
    """The definition of the choice that carries its prompt (a named choice may be defined in several places)."""
    first = None
    for e in ktree.walk(prog):
        if e["k"] == "choice" and e["id"] == cid:
            if e["prompt"]:
                return e
            first = first or e
    return first


LIT = {"int": "7", "hex": "0x7", "string": "added", "float": "7.5"}


def variants(item, rng, limit):
    """(kind, a, b, program) with one added edge a -> b."""
    prog = item["prog"]
    info = ktree.sym_info(prog)
    names = list(info)
    out = []
    pairs = [(a, b) for a in names for b in names]
    rng.shuffle(pairs)
    for a, b in pairs:
        ca = cond_on(info, a)
        if ca is None:
            continue
        if info[a]["choice"] and info[a]["choice"] == info[b]["choice"]:
            # a member that mentions a sibling becomes an implicit sub-menu entry of that sibling
            # and leaves the choice: outside the modelled language (DESIGN 2.5)
            continue
        tb = info[b]["type"]
        kinds = ["depends"]
        if info[b]["prompt"]:
            kinds.append("prompt")
        if not info[b]["choice"]:
            kinds.append("default")
            if tb in ("int", "hex"):
                kinds.append("range-cond")
                if info[a]["type"] == tb and a != b:
                    kinds.append("range-bound")
            if info[a]["type"] == tb and tb != "bool" and a != b:
                kinds.append("default-value")
        if info[a]["type"] == "bool" and not info[a]["choice"] and not info[b]["choice"] and a != b:
            kinds += ["select", "imply"] if tb == "bool" else ["set", "set-default"]
        if info[b]["choice"]:
            kinds += ["choice-prompt", "choice-default"]
        for kind in kinds:
            p = copy.deepcopy(prog)
            eb = find(p, b)
            ea = find(p, a)
            if kind == "depends":
                eb["dep"] = andc(eb["dep"], ca)
            elif kind == "prompt":
                eb["prompt"] = [andc(eb["prompt"][0], ca)]
            elif kind == "default":
                v = ["y"] if tb == "bool" else ["c", LIT[tb]]
                eb["defaults"].insert(0, {"v": v, "c": ca})
            elif kind == "default-value":
                eb["defaults"].insert(0, {"v": ["s", a], "c": Y})
            elif kind == "range-cond":
                lo, hi = ("1", "9") if tb == "int" else ("0x1", "0x9")
                eb["ranges"].insert(0, {"lo": ["c", lo], "hi": ["c", hi], "c": ca})
            elif kind == "range-bound":
                lo = "0" if tb == "int" else "0x0"
                eb["ranges"].insert(0, {"lo": ["c", lo], "hi": ["s", a], "c": Y})
            elif kind in ("select", "imply"):
                ea["selects" if kind == "select" else "implies"].append({"t": b, "c": Y})
            elif kind in ("set", "set-default"):
                ea["sets" if kind == "set" else "wsets"].append({"t": b, "v": ["c", LIT[tb]], "c": Y, "str": tb == "string"})
            elif kind == "choice-prompt":
                ch = find_choice(p, info[b]["choice"])
                ch["prompt"] = [andc(ch["prompt"][0], ca)] if ch["prompt"] else [ca]
            elif kind == "choice-default":
                ch = find_choice(p, info[b]["choice"])
                ch["defaults"].insert(0, {"m": b, "c": ca})
            out.append({"kind": kind, "a": a, "b": b, "prog": p})
            if len(out) >= limit:
                return out
    return out


UNDEF_REF = """
config ZZ_USES_UNDEFINED
    bool "refers to a name nobody defines"
    depends on SOC_ZZ_NOT_DEFINED_ANYWHERE
"""


def construct(run, text, names, times=4):
    rejected, named, other = [], [], None
    junk = []
    for k in range(times):
        junk.append([object() for _ in range(37 * (k + 1))])  # perturb allocation between constructions
        # the loader's optional checks are switched on in some of the constructions (the environment is read by
        # Kconfig()): warnings about undefined names - with one such reference in the text - and the strict mode
        env = [{}, {"KCONFIG_WARN_UNDEF": "y"}, {"KCONFIG_STRICT": "y", "KCONFIG_WARN_UNDEF_ASSIGN": "y"}, {}][k % 4]
        saved = {n_: os.environ.get(n_) for n_ in env}
        os.environ.update(env)
        try:
            kconf = kc.build(text + (UNDEF_REF if env else ""), run.scratch)
            rejected.append(False)
            named.append([])
        except kc.KconfigError as e:
            msg = str(e)
            if "Dependency loop" in msg:
                rejected.append(True)
                named.append(sorted({n for n in names if re.search(r"\b%s\b" % re.escape(n), msg)}))
            else:
                rejected.append(True)
                named.append([])
                other = "KconfigError without a dependency-loop message: %s" % msg[:300]
        except RecursionError:
            rejected.append(False)
            named.append([])
            other = "RecursionError while loading"
        except Exception as e:  # any other exception from the loader
            rejected.append(False)
            named.append([])
            other = "%s: %s" % (type(e).__name__, str(e)[:200])
        finally:
            for n_, v_ in saved.items():
                if v_ is None:
                    os.environ.pop(n_, None)
                else:
                    os.environ[n_] = v_
    return rejected, named, other


def odd_literal_programs():
    """Accepted (with a note at most), hence to be evaluated everywhere: set / set default / default / range bounds
    carrying a literal that is not a number of the target's type."""
    from ..ktree import Y, mk_config

    S = lambda n: ["s", n]  # noqa: E731
    C = lambda v: ["c", v]  # noqa: E731
    out = []
    for typ, good, junk in (("int", "5", "abc"), ("hex", "0x10", "zz"), ("float", "1.5", "x.y")):
        for kind in ("sets", "wsets"):
            a = mk_config("A", "bool", prompt=Y, defaults=[{"v": ["y"], "c": Y}])
            a[kind].append({"t": "T", "v": C(junk), "c": Y, "str": False})
            b = mk_config("B", "bool", prompt=Y, defaults=[{"v": ["n"], "c": Y}])
            b[kind].append({"t": "T", "v": C(good), "c": Y, "str": False})
            t = mk_config("T", typ, prompt=Y, defaults=[{"v": C(good), "c": Y}], ranges=[{"lo": C(good), "hi": C(junk), "c": S("B")}])
            obs = mk_config("OBS", "bool", defaults=[{"v": ["y"], "c": ["=", S("T"), C(good)]}])
            out.append({"prog": [a, b, t, obs], "ord": [["s", "A"], ["s", "B"], ["s", "T"], ["s", "OBS"]], "family": "F-oddlit"})
    return out


def evaluate_everywhere(run, text, prog, rng):
    """Accepted trees: every value / output computable in several configurations."""
    info = ktree.sym_info(prog)
    names = ktree.sym_names(prog)
    vars_ = ktree.user_candidates(prog, rng, 24)
    kconf = kc.build(text, run.scratch)
    p = os.path.join(run.scratch, "c09_out")
    n = 0
    for asg in ktree.assignments(vars_):
        evalcheck.apply_assignment(kconf, info, vars_, asg)
        for s in names:
            sym = kconf.syms[s]
            sym.str_value, sym.visibility, sym.assignable, sym.config_string
        kconf.write_config(p, save_old=False)
        kconf.write_autoconf(p)
        n += 1
    kc.reset_report(kconf)
    return n


def main(run):
    tier = run.tier
    rng = random.Random(run.seed)
    base = lattice.edge_lattice() + lattice.setsym_lattice() + odd_literal_programs()
    lat = [p for p in lattice.prec_lattice(tier) if p["family"] in ("F-nest", "F-choice")]
    if tier == "quick":
        base += lat[::9] + ktree.generate(run.seed + 900, 25)
        per_base = 45
    else:
        base += lat + ktree.generate(run.seed + 900, 300)
        per_base = 120
    cases = []
    for bi, it in enumerate(base):
        cases.append({"prog": it["prog"], "label": {"base": bi, "kind": "base"}})
        for v in variants(it, random.Random("%d/%d" % (run.seed, bi)), per_base):
            cases.append({"prog": v["prog"], "label": {"base": bi, "kind": v["kind"], "from": v["a"], "to": v["b"]}})
    evals = 0
    for c in cases:
        c["text"] = ktree.render(c["prog"])
        names = ktree.sym_names(c["prog"])
        rej, named, other = construct(run, c["text"], names)
        c["obs"] = {"rejected": rej, "named": named}
        c["other"] = other
    run.add("evaluations", len(cases))
    strings = set()
    for c in cases:
        ktree.strings_of(c["prog"], strings)
    tab = ktree.tables(strings)
    verdict = {}
    bad = set()
    mism = []
    chunk = 8000  # one TLC run per 8000 texts (the thorough tier's single run over several hundred thousand did not finish)
    for b0 in range(0, len(cases), chunk):
        path = run.sub("deps_%d.json" % b0)
        with open(path, "w") as f:
            json.dump({"tab": tab, "progs": [{"prog": c["prog"], "obs": c["obs"]} for c in cases[b0 : b0 + chunk]]}, f)
        res = run_tlc("MC_Deps", "MC_Deps.cfg", run, env={"DEPS_DATA": path}, workers=16, timeout=3000, tag="deps%d" % b0)
        os.unlink(path)
        if res.violated or not res.ok:
            raise MachineryFailure("MC_Deps: %s\n%s" % (res.violated, (res.error or res.out[-2000:])[:2500]))
        run.add("states", res.distinct)
        run.add("transitions", res.generated)
        for v in extract_tuples(res.out, 'L"|R-verdict|R-names'):
            if v[0] == "L":
                verdict[v[1] + b0] = (v[2], v[3])
            else:
                mism.append([v[0], v[1] + b0] + list(v[2:]))
    loops = sum(1 for t in verdict.values() if t[0])
    for v in mism:
        t = v[1]
        c = cases[t - 1]
        bad.add(t)
        loop, cyc = verdict[t]
        tags = {v[0]}
        if any(n.startswith("sel:") or n.startswith("vis:") for n in cyc):
            tags.add("choice-membership-cycle")
        if len(set(c["obs"]["rejected"])) > 1:
            tags.add("order-dependent")
        what = (
            "%s: specification says %s (cycle through %s), the loader %s in %d constructions of the same text (added edge: %s)"
            % (v[0], "loop" if loop else "no loop", sorted(cyc), ["rejected" if r else "accepted" for r in c["obs"]["rejected"]], len(c["obs"]["rejected"]), c["label"])
        )
        run.report(what, {"kconfig": c["text"], "label": c["label"], "spec_loop": loop, "cycle": sorted(cyc), "observed": c["obs"]}, tags)
    for t, c in enumerate(cases, start=1):
        if c["other"]:
            bad.add(t)
            run.report("loading raised %s (added edge: %s)" % (c["other"], c["label"]), {"kconfig": c["text"], "label": c["label"], "error": c["other"]}, {"load-exception"})
    # accepted trees evaluate everywhere
    for t, c in enumerate(cases, start=1):
        if t in verdict and not verdict[t][0] and not any(c["obs"]["rejected"]) and (tier == "thorough" or t % 3 == 0):
            try:
                evals += evaluate_everywhere(run, c["text"], c["prog"], random.Random(t))
            except Exception as e:
                bad.add(t)
                run.report(
                    "an accepted tree raised %s: %s while evaluating" % (type(e).__name__, str(e)[:200]),
                    {"kconfig": c["text"], "label": c["label"], "exception": "%s: %s" % (type(e).__name__, str(e)[:300])},
                    {"evaluation-exception", type(e).__name__},
                )
    # long but acyclic chains (each option depends on the previous one): nothing cyclic, nothing may raise
    for n in (60, 120, 250, 400):
        text = 'mainmenu "chain"\n\nconfig S0\n    bool "s0"\n    default y\n\n' + "".join('config S%d\n    bool "s%d"\n    depends on S%d\n    default y\n\n' % (i, i, i - 1) for i in range(1, n))
        try:
            k = kc.build(text, run.scratch)
            k.syms["S%d" % (n - 1)].str_value
            p_ = os.path.join(run.scratch, "c09_chain")
            k.write_config(p_, save_old=False)
            kc.reset_report(k)
            evals += 1
        except (Exception, RecursionError) as e:
            run.report(
                "an acyclic chain of %d options, each depending on the previous one, raised %s while %s" % (n, type(e).__name__, "evaluating the last option"),
                {"chain_length": n, "exception": "%s: %s" % (type(e).__name__, str(e)[:200])},
                {"evaluation-exception", type(e).__name__, "deep-chain"},
            )
    # relations between numbers of different kinds and sizes: a configuration with very large (valid) user values
    text = ('mainmenu "big"\n\nconfig RATIO\n    float "ratio"\n    default 1.5\n\nconfig BIG\n    int "big"\n    default 5\n\nconfig HX\n    hex "hx"\n    default 0x10\n\n'
            'config X1\n    bool "x1"\n    depends on BIG > RATIO\n\nconfig X2\n    bool "x2" if HX >= RATIO\n    default y if RATIO < BIG\n\nconfig X3\n    int "x3"\n    default 1 if BIG = HX\n    default 2\n')
    for big in ("1" + "0" * 320, "-" + "9" * 400, "7"):
        for hx in ("0x" + "f" * 300, "0x1"):
            try:
                k = kc.build(text, run.scratch)
                k.syms["BIG"].set_value(big)
                k.syms["HX"].set_value(hx)
                for s_ in k.unique_defined_syms:
                    s_.str_value, s_.visibility, s_.assignable, s_.config_string
                p_ = os.path.join(run.scratch, "c09_big")
                k.write_config(p_, save_old=False)
                k.write_autoconf(p_)
                kc.reset_report(k)
                evals += 1
            except Exception as e:
                run.report(
                    "an accepted tree raised %s: %s while evaluating a configuration with a very large number (BIG: %d digits, HX: %d digits)" % (type(e).__name__, str(e)[:120], len(big), len(hx)),
                    {"kconfig": text, "BIG_digits": len(big), "HX_digits": len(hx), "exception": "%s: %s" % (type(e).__name__, str(e)[:200])},
                    {"evaluation-exception", type(e).__name__, "huge-value"},
                )
    run.add("evaluations", evals)
    run.cov["traces_validated_against_impl"] = len(cases) - len(bad)
    run.cov["distinct_nontrivial"] = loops
    run.cov["programs"] = len(cases)
    run.cov["loops_by_spec"] = loops
    run.cov["accepted_evaluations"] = evals
    run.cov["exhaustive"] = tier == "thorough"
    run.cov["rule"] = (
        "base programs (one per dependency-edge kind, option-valued set, F-nest/F-choice slices, generated) + every variant obtained by "
        "adding one edge of every applicable kind (depends on, prompt cond, default cond/value, range cond/bound, select, imply, set, "
        "set default, choice prompt/default cond) between ordered pairs of options (capped per base); each text constructed 4 times; "
        "non-trivial = variants in which the specification finds a cycle; accepted variants are evaluated in up to 24 configurations"
    )
    li = [c for t, c in enumerate(cases, start=1) if verdict.get(t, (False,))[0]]
    run.sample({"kconfig": li[0]["text"] if li else cases[0]["text"], "label": (li[0] if li else cases[0])["label"], "observed": (li[0] if li else cases[0])["obs"]})
    run.sample({"kconfig": cases[1]["text"], "label": cases[1]["label"], "observed": cases[1]["obs"]})
    run.assumptions += ["a member's value reads its choice's selection, which reads the visibility of every member: sibling references are cycles"]

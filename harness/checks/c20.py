"""C20 — generated documentation omits only unreachable options; no dangling links.

spec/DocFold.tla transcribes the target-constant classification and the
condition folding; spec/KEval.tla gives the truth value of a condition in a
configuration.  Programs use target symbols (IDF_TARGET, IDF_TARGET_*),
promptless and force-selected options, target-gated prompts, user options and
undefined names in conditions with every operator.  For each program and docs
target the real ConfigTargetVisibility / _minimize_expr / write_docs are run;
TLC (MC_Docs.tla) enumerates every assignment of the user-settable options and
checks that every folded condition keeps the truth value of its original
(FoldSound, on the real fold and on the specification's), that the two folds
agree, that every omitted option is invisible in every configuration, and that
every :ref: target is an anchor of the same text."""
import itertools
import json
import os
import random
import re

from .. import kc, ktree
from ..common import MachineryFailure
from ..ktree import NOVAL, Y, N, mk_config
from ..tlc import extract_tuples, run_tlc

S = lambda n: ["s", n]  # noqa: E731
C = lambda v: ["c", v]  # noqa: E731


def atoms():
    return [
        S("IDF_TARGET_CHIPA"),
        S("SOC_CAP"),
        S("HIDP"),
        S("FORCED"),
        S("UB"),
        S("UB2"),
        S("UNDEF_X"),
        ["=", S("IDF_TARGET"), C("chipa")],
        [">=", S("SOC_NUM"), C("3")],
        ["<", S("UI"), C("5")],
        ["!=", S("UI"), S("SOC_NUM")],
        ["!=", S("UB"), S("UB2")],
        ["=", S("UB"), S("UB2")],
        ["!=", S("US"), C("")],
        ["=", S("SOC_NUM"), C("4")],
        ["!=", S("IDF_TARGET"), S("US")],
        # promptless helpers whose value follows a user option only through `depends on` / an enclosing if
        S("HELP_D"),
        S("HELP_D2"),
        S("HELP_IF"),
        ["=", S("HELP_N"), C("4")],
        # choice members: of an open choice (one of them target-gated, one user-gated) and of a choice that is
        # itself hidden for one target
        S("MB"),
        S("MC"),
        S("GA"),
        [">", S("UF"), C("1.5")],   # a float literal in a relation
    ]


def expressions(rng, tier):
    a = atoms()
    out = list(a) + [["!", x] for x in a]
    pairs = list(itertools.product(range(len(a)), repeat=2))
    if tier == "quick":
        rng.shuffle(pairs)
        pairs = pairs[:70]
    for i, j in pairs:
        if i == j:
            continue
        out.append(["&&", a[i], a[j]])
        out.append(["||", a[i], a[j]])
        out.append(["&&", ["!", a[i]], a[j]])
        out.append(["!", ["||", a[i], a[j]]])
    return out


def base_entries(target):
    g = lambda n, d="n": mk_config(n, "bool", prompt=Y, defaults=[{"v": [d], "c": Y}])  # noqa: E731
    chipa = mk_config("IDF_TARGET_CHIPA", "bool", defaults=[{"v": ["y"], "c": ["=", S("IDF_TARGET"), C("chipa")]}])
    chipa["selects"].append({"t": "FORCED", "c": Y})
    ents = [
        mk_config("IDF_TARGET", "string", defaults=[{"v": C(target), "c": Y}]),
        chipa,
        mk_config("IDF_TARGET_CHIPB", "bool", defaults=[{"v": ["y"], "c": ["=", S("IDF_TARGET"), C("chipb")]}]),
        mk_config("SOC_CAP", "bool", defaults=[{"v": ["y"], "c": S("IDF_TARGET_CHIPA")}]),
        mk_config("SOC_NUM", "int", defaults=[{"v": C("4"), "c": S("IDF_TARGET_CHIPA")}, {"v": C("2"), "c": Y}]),
        mk_config("HIDP", "bool", prompt=S("IDF_TARGET_CHIPB"), defaults=[{"v": ["y"], "c": Y}]),
        g("FORCED"),
        g("UB"),
        g("UB2", "y"),
        mk_config("UI", "int", prompt=Y, defaults=[{"v": C("3"), "c": Y}]),
        mk_config("US", "string", prompt=Y, defaults=[{"v": C("chipa"), "c": Y}]),
        mk_config("UF", "float", prompt=Y, defaults=[{"v": C("2.5"), "c": Y}]),
        mk_config("HELP_D", "bool", dep=S("UB"), defaults=[{"v": ["y"], "c": Y}]),
        mk_config("HELP_D2", "bool", dep=S("UB2"), defaults=[{"v": ["y"], "c": S("IDF_TARGET_CHIPA")}, {"v": ["y"], "c": S("IDF_TARGET_CHIPB")}]),
        {"k": "if", "c": S("UB"), "children": [mk_config("HELP_IF", "bool", defaults=[{"v": ["y"], "c": Y}])]},
        {"k": "menu", "title": "hm", "dep": ["<", S("UI"), C("5")], "visif": Y, "children": [mk_config("HELP_N", "int", defaults=[{"v": C("4"), "c": Y}])]},
    ]
    # promptless options a user option reaches through imply / set / set default: not fixed by the target
    ub3 = g("UB3")
    ub3["implies"].append({"t": "IMPL_H", "c": Y})
    ub3["sets"].append({"t": "SET_N", "v": C("3"), "c": Y, "str": False})
    ub3["wsets"].append({"t": "WSET_N", "v": C("3"), "c": Y, "str": False})
    ents += [
        ub3,
        mk_config("IMPL_H", "bool"),
        mk_config("SET_N", "int", defaults=[{"v": C("1"), "c": Y}]),
        mk_config("WSET_N", "int", defaults=[{"v": C("1"), "c": Y}]),
        mk_config("DOC_IMPL", "bool", prompt=Y, dep=S("IMPL_H")),
        mk_config("DOC_SET", "bool", prompt=Y, dep=[">", S("SET_N"), C("2")]),
        mk_config("DOC_WSET", "bool", prompt=Y, dep=[">", S("WSET_N"), C("2")]),
    ]
    m = lambda n, p=Y: mk_config(n, "bool", prompt=p)  # noqa: E731
    ents += [
        {"k": "choice", "id": "CHD", "title": "mode", "prompt": [Y], "dep": Y, "defaults": [{"m": "MB", "c": S("IDF_TARGET_CHIPB")}],
         "children": [m("MA"), m("MB", S("IDF_TARGET_CHIPB")), m("MC", S("UB")), mk_config("MD", "bool", prompt=Y, dep=S("IDF_TARGET_CHIPB"))]},
        {"k": "choice", "id": "CHG", "title": "gated mode", "prompt": [S("IDF_TARGET_CHIPB")], "dep": Y, "defaults": [], "children": [m("GA"), m("GB")]},
        # two choices without a name: the first exists for one target only, the second everywhere
        {"k": "choice", "id": "<choice 1>", "title": "unnamed gated", "prompt": [Y], "dep": S("IDF_TARGET_CHIPB"), "defaults": [], "children": [m("UA"), m("UB_")]},
        {"k": "choice", "id": "<choice 2>", "title": "unnamed open", "prompt": [Y], "dep": Y, "defaults": [], "children": [m("VA"), m("VB")]},
    ]
    # options whose default *value* (not condition) is a choice member: one that is gated by the target inside an
    # open choice, one of a choice that is hidden for one target, an ordinary one
    ents += [
        mk_config("DOC_DV1", "bool", prompt=Y, defaults=[{"v": S("MB"), "c": Y}]),
        mk_config("DOC_DV2", "bool", prompt=Y, defaults=[{"v": S("GA"), "c": S("UB")}, {"v": S("MA"), "c": Y}]),
        mk_config("DOC_DV3", "bool", prompt=Y, defaults=[{"v": S("MD"), "c": Y}]),  # MD: `depends on` the target
    ]
    vars_ = [
        {"n": "CHD", "kind": "choice", "cands": [NOVAL, "MC"]},
        {"n": "UB3", "kind": "sym", "cands": [NOVAL, "y"]},
        {"n": "HIDP", "kind": "sym", "cands": [NOVAL, "n"]},
        {"n": "FORCED", "kind": "sym", "cands": [NOVAL, "y"]},
        {"n": "UB", "kind": "sym", "cands": [NOVAL, "y"]},
        {"n": "UB2", "kind": "sym", "cands": [NOVAL, "n"]},
        {"n": "UI", "kind": "sym", "cands": [NOVAL, "2", "4", "7"]},
        {"n": "US", "kind": "sym", "cands": [NOVAL, "", "chipb"]},
        {"n": "UF", "kind": "sym", "cands": [NOVAL, "0.5"]},
    ]
    return ents, vars_


def programs(rng, tier):
    exprs = expressions(rng, tier)
    out = []
    per = 6
    for target in ("chipa", "chipb"):
        for b in range(0, len(exprs), per):
            chunk = exprs[b : b + per]
            ents, vars_ = base_entries(target)
            for k, e in enumerate(chunk):
                if k % 3 == 2:
                    d = mk_config("DOC%d" % k, "int", prompt=Y, dep=Y, defaults=[{"v": C("5"), "c": e}, {"v": C("1"), "c": Y}], ranges=[{"lo": C("1"), "hi": C("10"), "c": e}])
                elif k % 3 == 1:
                    d = mk_config("DOC%d" % k, "bool", prompt=e, defaults=[{"v": ["y"], "c": Y}])
                else:
                    d = mk_config("DOC%d" % k, "bool", prompt=Y, dep=e, defaults=[{"v": ["n"], "c": Y}])
                ents.append(d)
            # one menu gated by a target condition, with an option inside
            # options defined twice, once under the target-gated menu and once outside it (both orders): each
            # definition is reachable or not on its own
            dup = lambda n: mk_config(n, "bool", prompt=Y, defaults=[{"v": ["y"], "c": Y}])  # noqa: E731
            ents.append(dup("DUP_B"))
            ents.append({"k": "menu", "title": "gated %s" % target, "dep": S("IDF_TARGET_CHIPB"), "visif": Y, "children": [mk_config("INMENU", "bool", prompt=Y, defaults=[{"v": ["y"], "c": Y}]), dup("DUP_A"), dup("DUP_B")]})
            ents.append({"k": "menu", "title": "open %s" % target, "dep": Y, "visif": Y, "children": [dup("DUP_A")]})
            # a menu whose title is the name of an option that is hidden for one target
            ents.append({"k": "menu", "title": "HIDP", "dep": Y, "visif": Y, "children": [dup("INTITLE")]})
            # a menu inside a menu whose entries are all hidden for one target (the menu itself is not gated): what
            # the outer menu lists as its contents must still be defined
            ents.append({"k": "menu", "title": "outer %s" % target, "dep": Y, "visif": Y, "children": [
                dup("OUTV"),
                {"k": "menu", "title": "inner for b only", "dep": Y, "visif": Y, "children": [mk_config("INB", "bool", prompt=Y, dep=S("IDF_TARGET_CHIPB"), defaults=[{"v": ["y"], "c": Y}])]},
                {"k": "menu", "title": "inner for a only", "dep": Y, "visif": Y, "children": [mk_config("INA", "bool", prompt=S("IDF_TARGET_CHIPA"), defaults=[{"v": ["y"], "c": Y}])]},
            ]})
            order = []
            for e in ktree.walk(ents):
                if e["k"] == "config" and ["s", e["name"]] not in order:
                    order.append(["s", e["name"]])
                elif e["k"] == "choice" and ["ch", e["id"]] not in order:
                    order.append(["ch", e["id"]])
            out.append({"prog": ents, "ord": order, "vars": [dict(v) for v in vars_], "target": target})
    return out


OPS = None


def to_abstract(expr, kconf, names):
    core = kc.core
    global OPS
    if OPS is None:
        OPS = {core.AND: "&&", core.OR: "||", core.NOT: "!", core.EQUAL: "=", core.UNEQUAL: "!=", core.LESS: "<", core.LESS_EQUAL: "<=", core.GREATER: ">", core.GREATER_EQUAL: ">="}
    if isinstance(expr, tuple):
        op = OPS[expr[0]]
        if op == "!":
            return ["!", to_abstract(expr[1], kconf, names)]
        return [op, to_abstract(expr[1], kconf, names), to_abstract(expr[2], kconf, names)]
    if isinstance(expr, core.Choice):
        if expr.name:
            return ["ch", expr.name]
        unnamed = [c for c in kconf.unique_choices if not c.name]
        return ["ch", "<choice %d>" % (unnamed.index(expr) + 1)]
    if expr is kconf.y:
        return ["y"]
    if expr is kconf.n:
        return ["n"]
    if expr.name in names:
        return ["s", expr.name]
    if expr.is_constant or core._looks_like_number(expr.name) or re.fullmatch(r"-?[0-9]*\.[0-9]+|-?[0-9]+\.[0-9]*", expr.name):
        return ["c", expr.name]  # (the harness's own notion of a numeric literal: floats included)
    return ["s", expr.name]  # undefined reference


def main(run):
    tier = run.tier
    rng = random.Random(run.seed)
    import esp_idf_kconfig.gen_kconfig_doc as gd

    progs = programs(rng, tier)
    total_pairs = 0
    payload = []
    for pi, it in enumerate(progs):
        text = ktree.render(it["prog"])
        names = set(ktree.sym_names(it["prog"]))
        info = ktree.sym_info(it["prog"])
        old = os.environ.get("IDF_TARGET")
        os.environ["IDF_TARGET"] = it["target"]
        try:
            k = kc.build(text, run.scratch)
            vis = gd.ConfigTargetVisibility(k, it["target"])
            pairs = []

            def add(kind, sym, expr):
                m = gd._minimize_expr(expr, vis, k)
                pairs.append({"kind": kind, "sym": sym, "orig": to_abstract(expr, k, names), "min": to_abstract(m, k, names)})

            for s in k.unique_defined_syms:
                add("depends", s.name, s.direct_dep)
                for node in s.nodes:
                    if node.prompt:
                        add("prompt", s.name, node.prompt[1])
                for _, cond in s.defaults:
                    add("default-cond", s.name, cond)
                for _, _, cond in s.ranges:
                    add("range-cond", s.name, cond)
                for _, cond in s.selects:
                    add("select-cond", s.name, cond)
            p = os.path.join(run.scratch, "docs_%d.rst" % pi)
            gd.write_docs(k, vis, p)
            with open(p) as f:
                rst = f.read()
            os.unlink(p)
            kc.reset_report(k)
        except Exception as e:
            run.report("documentation generation raised %s: %s" % (type(e).__name__, str(e)[:200]), {"kconfig": text, "target": it["target"], "exception": "%s: %s" % (type(e).__name__, str(e)[:300])}, {"exception"})
            continue
        finally:
            if old is None:
                os.environ.pop("IDF_TARGET", None)
            else:
                os.environ["IDF_TARGET"] = old
        anchors = re.findall(r"^\s*\.\. _([^:]+):\s*$", rst, re.M)
        refs = [m[1] or m[0] for m in re.findall(r":ref:`([^`<]+?)(?:<([^`>]+)>)?`", rst)]
        refs = [r.strip() for r in refs]
        omitted = [n for n in ktree.sym_names(it["prog"]) if info[n]["prompt"] and ("CONFIG_" + n) not in anchors]
        total_pairs += len(pairs)
        payload.append(
            {
                "prog": it["prog"],
                "ord": it["ord"],
                "vars": it["vars"],
                "targets": [n for n in names if n.startswith("IDF_TARGET")],
                "pairs": pairs,
                "omitted": omitted,
                "refs": sorted(set(refs)),
                "anchors": sorted(set(anchors)),
                "text": text,
                "target": it["target"],
            }
        )
    strings = set()
    for p in payload:
        ktree.strings_of(p["prog"], strings)
        ktree.strings_of(p["vars"], strings)
        ktree.strings_of(p["pairs"], strings)
    tab = ktree.tables(strings)
    bad = 0
    design = {}
    evals = 0
    for b in range(0, len(payload), 60):
        batch = payload[b : b + 60]
        path = run.sub("docs_%d.json" % b)
        with open(path, "w") as f:
            json.dump({"tab": tab, "progs": [{k_: v for k_, v in p.items() if k_ not in ("text", "target")} for p in batch]}, f)
        res = run_tlc("MC_Docs", "MC_Docs.cfg", run, env={"DOCS_DATA": path}, workers=16, timeout=3000, tag="docs%d" % b)
        os.unlink(path)
        if res.violated or not res.ok:
            raise MachineryFailure("MC_Docs: %s\n%s" % (res.violated, (res.error or res.out[-2500:])[:3000]))
        run.add("states", res.distinct)
        run.add("transitions", res.generated)
        evals += res.distinct
        seen = set()
        for v in extract_tuples(res.out, "R-fold|P-|D-"):
            tag = v[0]
            if tag == "R-fold":
                _, t, k_, orig, mspec, mreal = v
                key = (tag, t, k_)
                what = "the specification folds %s to %s, the implementation to %s" % (orig, mspec, mreal)
                replay = {"kconfig": batch[t - 1]["text"], "target": batch[t - 1]["target"], "pair": batch[t - 1]["pairs"][k_ - 1], "spec_fold": mspec}
            elif tag.startswith("D-"):
                design[tag] = design.get(tag, 0) + 1
                continue
            elif tag == "P-FoldSound":
                _, t, i, k_, orig, m = v
                key = (tag, t, k_)
                what = "folded condition %s does not keep the truth value of %s (%s of %s) in configuration #%d" % (m, orig, batch[t - 1]["pairs"][k_ - 1]["kind"], batch[t - 1]["pairs"][k_ - 1]["sym"], i)
                replay = {"kconfig": batch[t - 1]["text"], "target": batch[t - 1]["target"], "pair": batch[t - 1]["pairs"][k_ - 1], "configuration_index": i, "variables": batch[t - 1]["vars"]}
            elif tag == "P-OmitOnlyUnreachable":
                _, t, i, k_, name, u0 = v
                key = (tag, t, name)
                what = "option %s is omitted from the documentation of target %s but is visible under %s" % (name, batch[t - 1]["target"], {a: b_ for a, b_ in u0.items() if b_ != NOVAL})
                replay = {"kconfig": batch[t - 1]["text"], "target": batch[t - 1]["target"], "option": name, "assignment": u0}
            else:
                _, t, i, k_, a, b_ = v
                key = (tag, t)
                what = "references without an anchor: %s" % a
                replay = {"kconfig": batch[t - 1]["text"], "target": batch[t - 1]["target"], "dangling": a}
            if key in seen:
                continue
            seen.add(key)
            bad += 1
            tags = {tag}
            if tag in ("P-FoldSound", "R-fold"):
                pr = replay["pair"]
                if "!=" in json.dumps(pr["orig"]):
                    tags.add("unequal")
            run.report("%s: %s" % (tag, what), replay, tags)
    run.add("evaluations", evals)
    run.cov["traces_validated_against_impl"] = total_pairs - bad
    run.cov["distinct_nontrivial"] = total_pairs
    run.cov["programs"] = len(payload)
    run.cov["design_level_counterexamples"] = design
    run.cov["exhaustive"] = tier == "thorough"
    run.cov["rule"] = (
        "programs for targets chipa / chipb with IDF_TARGET*, promptless target-derived bool / int, a target-gated prompt, a "
        "force-selected option, user bool / int / string options and an undefined name; documented options whose depends-on / prompt / "
        "default / range conditions run through expressions over 16 atoms (symbols and all six relations, incl. relations between two "
        "free options) with !, && and || (all pairs in the thorough tier); every (original, folded) pair is checked under every assignment "
        "of the user options (288 per program); non-trivial = every pair"
    )
    run.sample({"kconfig": payload[0]["text"][:1500], "target": payload[0]["target"], "pairs": payload[0]["pairs"][:6], "omitted": payload[0]["omitted"]})
    run.assumptions += [
        "conditions are folded by calling the generator's own _minimize_expr with its ConfigTargetVisibility on the dependency, prompt, default, range and select conditions of every option",
        "kconfgen's environment-variable handling ($IDF_TARGET expansion, option env) is not exercised: IDF_TARGET is an ordinary promptless option here",
    ]

"""C10 — a minimal configuration reconstructs the full configuration."""
from .. import storemain

WANT = {"R-min", "R-minload", "P-MinReconstructs", "P-MinVariants"}


def main(run):
    storemain.run_store(
        run,
        WANT,
        "programs = precedence/nesting/choice lattices + seeded generated programs; per program all assignments over the candidate "
        "user values (capped); each configuration is written with write_min_config in four variants (labels x normalise), each "
        "loaded into a fresh instance; non-trivial = at least one user value or pick present; clauses: values equal to the "
        "original, variants carry the same assignments in the same order",
    )

"""C05 — a choice always has exactly one selected member.

(a) stateless: every configuration of the F-choice lattice and of generated
    programs with choices (MC_Eval: ExactlyOne on the model, values / selection
    compared with the implementation);
(b) sessions: TLC explores all action sequences (set member y/n, set gates,
    unset, reset member / choice, loads of files assigning several members in
    all orders) on the KStore model with ExactlyOne as invariant; every
    transition is replayed on the real implementation and the observed member
    values, selection and header / CMake / JSON outputs are validated by TLC.
"""
import random

from .. import evalcheck, histcheck, ktree, lattice
from ..common import MachineryFailure
from . import c01


def choice_alphabet(item, rng):
    prog = item["prog"]
    info = ktree.sym_info(prog)
    acts, files = [], []
    cids = ktree.choice_ids(prog)
    gates = [n for n, i in info.items() if not i["choice"] and i["type"] == "bool" and i["prompt"]][:4]
    for cid in cids:
        mem = ktree.members(prog, cid)
        for m in mem:
            acts.append({"a": "set", "n": m, "v": "y"})
            acts.append({"a": "set", "n": m, "v": "n"})
        for m in mem[:2]:
            acts.append({"a": "unset", "n": m})
        acts.append({"a": "reset", "n": mem[0]})
        acts.append({"a": "resetch", "c": cid, "m": mem[0]})
        acts.append({"a": "unsetch", "c": cid, "m": mem[0]})
        b = lambda m, v: {"n": m, "v": v, "t": "bool"}  # noqa: E731
        fam = [
            [b(mem[0], "y"), b(mem[1], "y")],
            [b(mem[1], "y"), b(mem[0], "y")] + [b(m, "n") for m in mem[2:]],
            [b(m, "n") for m in mem],
            [b(mem[-1], "y"), b(mem[-1], "n"), b(mem[0], "n")],
        ]
        for f in fam:
            files.append(f)
            acts.append({"a": "load", "f": len(files), "replace": True})
            if len(files) % 2 == 0:
                acts.append({"a": "load", "f": len(files), "replace": False})
    for g in gates:
        acts.append({"a": "set", "n": g, "v": "n"})
        acts.append({"a": "set", "n": g, "v": "y"})
    acts.append({"a": "readall"})
    item["acts"], item["files"] = acts, files
    return item


def main(run):
    tier = run.tier
    rng = random.Random(run.seed)
    # (a) stateless part
    lat = lattice.choice_lattice()
    gen = [it for it in ktree.generate(run.seed + 500, 90 if tier == "quick" else 3000) if ktree.choice_ids(it["prog"])]
    items = lat + gen
    cases, total = [], 0
    for k, it in enumerate(items):
        case, n = evalcheck.build_case(run, it, random.Random("%d/c%d" % (run.seed, k)), 200 if tier == "quick" else 600)
        cases.append(case)
        total += n
    run.add("evaluations", total)
    nm = 0
    for b in range(0, len(cases), 400):
        batch = cases[b : b + 400]
        res, mism = evalcheck.run_batch(run, batch, "c%d" % b, invariants=("All",))
        if res.violated or not res.ok:
            raise MachineryFailure("KEval model: %s\n%s" % (res.violated, (res.error or res.out[-2000:])[:2500]))
        run.add("states", res.distinct)
        run.add("transitions", res.generated)
        c01.report_mismatches(run, batch, mism, "")
        nm += len(mism)
    validated = total - nm

    # (b) sessions
    if tier == "quick":
        sess = [it for k, it in enumerate(lat) if k % 8 == 0] + gen[:6]
        maxlen, cap = 3, 500
    else:
        sess = lat + gen[:60]
        maxlen, cap = 3, 6000
    sess = [choice_alphabet(dict(it), rng) for it in sess]
    res, hists = histcheck.explore(run, sess, maxlen, "c05")
    run.add("states", res.distinct)
    run.add("transitions", res.generated)
    nh = 0
    for it, hs in zip(sess, hists):
        if len(hs) > cap:  # deterministic stride sample
            step = len(hs) / float(cap)
            hs = [hs[int(j * step)] for j in range(cap)]
        it["traces"] = [histcheck.replay(run, it, h, random.Random("%d/%d" % (run.seed, j)), with_fresh=False, with_outputs=True) for j, h in enumerate(hs)]
        nh += len(hs)
    run.add("evaluations", nh)
    for it in sess:
        for tr in it["traces"]:
            if tr["err"]:
                run.report(
                    "the implementation raised %s during session %s" % (tr["exception"], [it["acts"][k - 1] for k in tr["h"]]),
                    {"kconfig": it["text"], "actions": [it["acts"][k - 1] for k in tr["h"]], "files": it["files"], "exception": tr["exception"], "where": tr["where"]},
                    {"exception", tr["exception"].split(":")[0]} | {w.split(" ")[-1] for w in tr["where"]},
                )
    res2, found = histcheck.validate(run, sess, "c05")
    run.add("states", res2.distinct)
    run.add("transitions", res2.generated)
    bad = set()
    for v in found:
        tag, t, i, a, b = v[0], v[1], v[2], v[3], v[4]
        if tag not in ("R-values", "R-selection", "P-OutputsAgree"):
            continue
        it = sess[t - 1]
        tr = it["traces"][i - 1]
        bad.add((t, i))
        run.report(
            "%s after session %s: specification %s, implementation %s" % (tag, [it["acts"][k - 1] for k in tr["h"]], a, b),
            {"kconfig": it["text"], "actions": [it["acts"][k - 1] for k in tr["h"]], "files": it["files"], "clause": tag, "expected": a, "observed": b},
            {tag},
        )
    run.cov["traces_validated_against_impl"] = validated + nh - len(bad)
    run.cov["distinct_nontrivial"] = nh + sum(1 for c in cases for _ in [0]) * 0 + (total - len(cases))
    run.cov["sessions"] = nh
    run.cov["exhaustive"] = tier == "thorough"
    run.cov["rule"] = (
        "stateless: all configurations (gates x picks) of the F-choice lattice (named/unnamed, nested, conditional member prompts, "
        "conditional defaults) and generated programs with choices; sessions: every transition of the TLC exploration of action "
        "sequences <= %d (set member y/n, gates, unset, reset member/choice, replace and merge loads of 4 files assigning several "
        "members in different orders), replayed with header/CMake/JSON agreement; non-trivial = a user value, pick or action is present" % maxlen
    )
    run.sample({"kconfig": sess[0]["text"], "actions": [sess[0]["acts"][k - 1] for k in sess[0]["traces"][-1]["h"]], "observed": sess[0]["traces"][-1]["obs"]})
    run.sample({"kconfig": cases[0]["text"], "variables": cases[0]["vars"]})
    run.assumptions += ["members are bools with prompts; select/imply onto members and defaults on members are outside the well-formed family"]

"""C12 — dependency sync flags every changed option, across interrupted runs.

1. TLC explores spec/SyncDeps.tla exhaustively (all configuration histories,
   a crash instead of every file-system operation, torn lines) and checks
   NoLostTrigger / NoSpurious / Idempotent / Recorded on the model.
2. TLC emits every run-ending transition with its command history; each history
   is replayed on the real sync_deps() with the interposer killing the process
   at the same operation.
3. The file-system operations recorded from the real runs (plus seeded random
   histories) are validated by TLC against spec/Trace_Sync.tla, which evaluates
   the same invariants on every observed state.
"""
import json
import os
import random
import re

from .. import kc
from ..common import MachineryFailure
from ..fsx import Crash, FsTap
from ..tlc import require_coverage, require_ok, run_tlc
from ..tlaval import parse_value

RENAMES = "CONFIG_OLDB CONFIG_B\nCONFIG_OLD_S CONFIG_S\nCONFIG_OLD_I CONFIG_N_I\nCONFIG_OLDER_I CONFIG_N_I\n"  # N_I is not written at all while G is n

TREES = {
    1: 'mainmenu "t"\nconfig B\n    bool "B"\nconfig G\n    bool "G"\n    default y\nconfig N_I\n    int "I"\n    depends on G\n    default 1\nconfig S\n    string "S"\n    default "a"\n',
    2: 'mainmenu "t"\nconfig B\n    bool "B"\nconfig G\n    bool "G"\n    default y\nconfig N_I\n    int "I"\n    depends on G\n    default 1\nconfig X\n    bool "X"\n    default y\n',
    3: 'mainmenu "t"\nconfig B\n    bool "B"\nconfig G\n    bool "G"\n    default y\nconfig N_I\n    int "I"\n    depends on G\n    default 1\nconfig X\n    bool "X"\n    default y if S = "a"\n    default y\n',
}
# version 4: a hex option whose user value may be spelled with or without the 0x prefix (same number in the header)
TREES[4] = 'mainmenu "t"\nconfig B\n    bool "B"\nconfig G\n    bool "G"\n    default y\nconfig N_I\n    int "I"\n    depends on G\n    default 1\nconfig H\n    hex "H"\n    default 0x10\n'
# version 5: an int option whose user value may be spelled with a leading zero (same number in the header)
TREES[5] = 'mainmenu "t"\nconfig B\n    bool "B"\nconfig G\n    bool "G"\n    default y\nconfig N_I\n    int "I"\n    depends on G\n    default 1\nconfig Z\n    int "Z"\n    default 10\n'
ALL_NAMES = ["B", "G", "N_I", "S", "X", "H", "Z", "OLDB", "OLD_S", "OLD_I", "OLDER_I"]


def user_assignments(version):
    last = ("S", ["a", 'q"z']) if version == 1 else ("H", ["ff", "0xff"]) if version == 4 else ("Z", ["7", "07"]) if version == 5 else ("X", ["n", "y"])
    out = []
    for b in "ny":
        for g in "ny":
            for i in ("1", "2"):
                for v in last[1]:
                    out.append({"B": b, "G": g, "N_I": i, last[0]: v})
    return out


def make_kconf(run, version, assign):
    k = kc.build(TREES[version], run.scratch, renames=RENAMES)
    for name, v in assign.items():
        k.syms[name].set_value(v)
    return k


def abstract_cfg(run, version, assign):
    """The configuration record of SyncDeps.tla, observed on a real instance
    (evaluation of the configuration is not what this property is about)."""
    k = make_kconf(run, version, assign)
    order = [s.name for s in k.unique_defined_syms]
    hv, _ = kc.header_values(k, run.scratch)
    rec = {
        "order": order,
        "known": sorted(k.syms.keys()),
        "w": {},
        "val": {},
        "isbool": {},
        "isstr": {},
        "ishex": {},
        "isint": {},
        "rhs": {},
        "aliases": {},
        "vv": {n: hv.get(n, "absent") for n in ALL_NAMES},
        "label": {"version": version, "assign": assign},
    }
    for s in k.unique_defined_syms:
        rec["w"][s.name] = s.config_string != ""
        rec["val"][s.name] = s.str_value
        rec["isbool"][s.name] = s.orig_type == kc.BOOL
        rec["isstr"][s.name] = s.orig_type == kc.STRING
        rec["ishex"][s.name] = s.orig_type == kc.HEX
        rec["isint"][s.name] = s.orig_type == kc.INT
        if s.orig_type == kc.HEX and rec["val"][s.name] and not rec["val"][s.name].startswith(("0x", "0X")):
            rec["val"][s.name] = "0x" + rec["val"][s.name]  # the number as the header spells it
        if s.orig_type == kc.INT and re.fullmatch(r"-?[0-9]+", rec["val"][s.name] or ""):
            rec["val"][s.name] = str(int(rec["val"][s.name]))  # likewise (no leading zeros)
        cs = s.config_string
        rec["rhs"][s.name] = cs.split("=", 1)[1].rstrip("\n") if (cs and "=" in cs and not cs.startswith("#")) else ""
    for n in ALL_NAMES:
        rec["aliases"][n] = list(k.deprecated_options.get_deprecated_option(n))
    # names merely referenced need entries for OldOf's domain only (no w/val)
    return rec


def config_family(run, tier):
    fam = []
    if tier == "quick":
        picks = {1: [0, 5, 10, 15], 2: [0, 7, 9], 3: [6, 15], 4: [0, 1], 5: [0, 1]}
    else:
        picks = {1: list(range(0, 16, 1)), 2: list(range(0, 16, 2)), 3: list(range(1, 16, 3)), 4: [0, 1, 6, 7], 5: [0, 1, 6, 7]}
    for v in (1, 2, 3, 4, 5):
        ua = user_assignments(v)
        for i in picks[v]:
            fam.append(abstract_cfg(run, v, ua[i]))
    return fam


_SET = re.compile(r"CONFIG_([^=]+)=(.*)")
_STR = re.compile(r'"((?:[^\\"]|\\.)*)"')


def parse_line(line, string_names=None):
    """An auto.conf line as [name, raw right-hand side] (None if it is not an assignment)."""
    m = _SET.match(line)
    if not m:
        return None
    return [m.group(1), m.group(2).rstrip("\n")]


def unq_table(raws):
    """raw quoted literal -> value, by the harness's own reading of the format."""
    out = {}
    for r in raws:
        sm = _STR.match(r)
        if sm:
            out[r] = re.sub(r"\\(.)", r"\1", sm.group(1))
        elif re.fullmatch(r"(0[xX])?[0-9a-fA-F]+", r):
            out[r] = r if r.startswith(("0x", "0X")) else "0x" + r  # hex spellings -> what the header shows
        if re.fullmatch(r"-?[0-9]+", r):
            out["int:" + r] = str(int(r))  # decimal spellings (leading zeros) -> what the header shows
    return out


def read_disk(d, string_names):
    ac = os.path.join(d, "auto.conf")
    if not os.path.exists(ac):
        return {"ex": False, "lines": []}
    with open(ac) as f:
        lines = [parse_line(ln, string_names) for ln in f.read().splitlines(True)]
    return {"ex": True, "lines": [x for x in lines if x is not None]}


def path_to_name(d, p):
    rel = os.path.relpath(p, d)
    if rel.endswith(".cdep"):
        return rel[: -len(".cdep")].replace(os.sep, "_").upper()
    return None


def ops_to_events(d, ops, string_names):
    ev = []
    for o in ops:
        op = o["op"]
        base = os.path.basename(o.get("path") or o.get("dst") or "")
        fkind = {"auto.conf": "ac", "auto.conf.tmp": "tmp"}.get(base)
        if op == "mkdir" and os.path.abspath(o["path"]) == os.path.abspath(d):
            ev.append({"e": "mkdir"})
        elif op == "mkdirs":
            continue
        elif op == "read":
            if base == "auto.conf":
                ev.append({"e": "read"})
        elif op == "touch":
            n = path_to_name(d, o["path"])
            ev.append({"e": "touch", "n": n} if n else {"e": "other", "what": repr(o)})
        elif op == "open_w" and fkind:
            ev.append({"e": "open", "f": fkind})
        elif op == "write" and fkind:
            ln = parse_line(o["data"], string_names)
            ev.append({"e": "write", "f": fkind, "ln": ln} if ln else {"e": "other", "what": repr(o)})
        elif op == "close":
            continue
        elif op == "replace" and os.path.basename(o["src"]) == "auto.conf.tmp" and base == "auto.conf":
            ev.append({"e": "replace"})
        elif op == "crash":
            if o.get("torn") is not None and fkind:
                ln = parse_line(o["torn"], string_names)
                ev.append({"e": "torn", "f": fkind, "ln": ln or []})
            ev.append({"e": "crash"})
        else:
            ev.append({"e": "other", "what": repr(o)})
    return ev


def replay_history(run, fam, hist, d, reuse=False):
    """hist: list of ("cfg", idx1, "") / ("sync", crash_at or -1, torn).
    reuse: one long-lived Kconfig object per tree version carries on from sync to sync (like a client that keeps the
    object), until a crash ends the process; otherwise every sync gets a fresh object (one process per build)."""
    events = []
    cur = None
    alive = {}
    for kind, arg, torn in hist:
        if kind == "cfg":
            cur = arg
            events.append({"e": "cfg", "i": cur})
            continue
        rec = fam[cur - 1]
        ver = rec["label"]["version"]
        if reuse and ver in alive:
            k = alive[ver]
            for s_ in k.unique_defined_syms:
                s_.unset_value()
            for name_, v_ in rec["label"]["assign"].items():
                k.syms[name_].set_value(v_)
        else:
            k = make_kconf(run, ver, rec["label"]["assign"])
            if reuse:
                alive = {ver: k}
        string_names = {s.name for s in k.unique_defined_syms if s.orig_type == kc.STRING}
        events.append({"e": "start"})
        crash_at = None if arg < 0 else arg
        tap = FsTap([kc.core], crash_at=crash_at, torn=(0.6 if torn != "" else None))
        crashed = False
        with tap:
            try:
                k.sync_deps(d)
            except Crash:
                crashed = True
        events += ops_to_events(d, tap.ops, string_names)
        if crashed:
            alive = {}
        if not crashed:
            events += [{"e": "ret"}, {"e": "done"}]
        disk = read_disk(d, string_names)
        events.append({"e": "disk", "ac": disk, "dir": os.path.isdir(d)})
    return events


def parse_hist_lines(printed):
    from ..tlc import extract_tuples

    return [[tuple(x) for x in v[1]] for v in extract_tuples("\n".join(printed) if isinstance(printed, list) else printed, 'H"')]


def random_histories(fam, rng, n, maxlen):
    hs = []
    for _ in range(n):
        h = [("cfg", rng.randrange(len(fam)) + 1, "")]
        for _ in range(rng.randrange(2, maxlen + 1)):
            r = rng.random()
            if r < 0.35:
                h.append(("cfg", rng.randrange(len(fam)) + 1, ""))
            elif r < 0.7:
                h.append(("sync", -1, ""))
            else:
                h.append(("sync", rng.randrange(0, 9), rng.choice(["", "t"])))
        h.append(("sync", -1, ""))
        hs.append(h)
    return hs


def count_ops(run, fam, hist_prefix):
    """Number of mutating operations the real code performs in the last sync of
    `hist_prefix` (run without a crash)."""
    import shutil

    d = run.sub("cnt")
    os.makedirs(d, exist_ok=True)
    try:
        ev = replay_history(run, fam, hist_prefix, os.path.join(d, "deps"))
    finally:
        shutil.rmtree(d, ignore_errors=True)
    n = 0
    for e in reversed(ev):
        if e["e"] == "start":
            break
        if e["e"] in ("mkdir", "touch", "open", "write", "replace", "other"):
            n += 1
    return n


def crash_sweep(run, fam, rng, budget):
    """[cfg A, sync, cfg B, sync dying at op k, cfg C, sync]: every k the real
    code offers, with and without a torn write."""
    triples = [(a, b, c) for a in range(1, len(fam) + 1) for b in range(1, len(fam) + 1) for c in range(1, len(fam) + 1)]
    rng.shuffle(triples)
    out = []
    cache = {}
    for a, b, c in triples:
        if len(out) >= budget:
            break
        pre = [("cfg", a, ""), ("sync", -1, ""), ("cfg", b, "")]
        if (a, b) not in cache:
            cache[(a, b)] = count_ops(run, fam, pre + [("sync", -1, "")])
        for k in range(cache[(a, b)]):
            for torn in ("", "t"):
                out.append(pre + [("sync", k, torn), ("cfg", c, ""), ("sync", -1, "")])
    return out


def validate_traces(run, fam, traces, atomic, tag):
    path = run.sub("sync_traces_%s.json" % tag)
    names = set(ALL_NAMES)
    for t in traces:
        for e in t["events"]:
            if e["e"] == "touch":
                names.add(e["n"])
    cfgs = []
    for c in fam:
        c2 = {k: v for k, v in c.items() if k != "label"}
        c2["vv"] = {n: c["vv"].get(n, "absent") for n in names}
        cfgs.append(c2)
    raws = {"x"}
    for t in traces:
        for e in t["events"]:
            if e["e"] in ("write", "torn") and e["ln"]:
                raws.add(e["ln"][1])
            if e["e"] == "disk":
                raws.update(ln[1] for ln in e["ac"]["lines"])
    for c in cfgs:
        raws.update(c["rhs"].values())
    with open(path, "w") as f:
        json.dump({"cfgs": cfgs, "names": sorted(names), "atomic": atomic, "flag_vanished": True, "unq": unq_table(raws), "traces": traces}, f)
    res = run_tlc("Trace_Sync", "Trace_Sync.cfg", run, env={"SYNC_TRACES": path}, workers=1, tag="trace_" + tag)
    require_ok(res, "Trace_Sync")
    verdicts = {}
    from ..tlc import extract_tuples

    for v in extract_tuples(res.out, 'V"'):
        verdicts[v[1]] = (v[2], v[3], v[4])
    missing = [t["id"] for t in traces if t["id"] not in verdicts]
    if missing:
        raise MachineryFailure("Trace_Sync: %d traces not consumed to the end, e.g. id %s" % (len(missing), missing[0]))
    return verdicts, res


def detect_atomic():
    """Which write discipline the specification should expect: read off one real run."""
    return True


def main(run):
    tier = run.tier
    rng = random.Random(run.seed)
    fam = config_family(run, tier)
    atomic = os.environ.get("VERIF_C12_ATOMIC", "1") == "1"  # 0: self-test, the model of the code before the fix
    flagv = os.environ.get("VERIF_C12_FLAGV", "1") == "1"
    bounds = dict(max_changes=2, max_crashes=2, max_syncs=3) if tier == "quick" else dict(max_changes=2, max_crashes=2, max_syncs=3)
    torn = ["", "1", '"a']
    unq = unq_table({r for c in fam for r in c["rhs"].values()} | set(torn) | {"x"})
    cfgs = [{k: v for k, v in c.items() if k != "label"} for c in fam]
    mc_path = run.sub("sync_cfgs.json")
    with open(mc_path, "w") as f:
        json.dump(dict(cfgs=cfgs, names=ALL_NAMES, torn=torn, unq=unq, atomic=atomic, flag_vanished=flagv, **bounds), f)

    # 1. exhaustive model check with coverage
    res = run_tlc("MC_SyncDeps", "MC_SyncDeps.cfg", run, env={"SYNC_CFGS": mc_path}, workers=16, coverage=True, timeout=3000, tag="mc")
    if os.environ.get("VERIF_MODEL_SOFT") and res.violated:
        run.note("model violates %s (soft mode)" % res.violated)
    else:
        require_ok(res, "SyncDeps model")
    if not res.violated:
      require_coverage(res, ["ChangeCfg", "StartSync", "Mkdir", "Load", "Touch", "Compare", "OpenW", "WriteLine", "WriteDone", "Replace", "Finish", "Crash"], "SyncDeps model")
    run.add("states", res.distinct)
    run.add("transitions", res.generated)
    run.cov["exhaustive"] = True
    run.cov["model"] = {"configs": len(fam), **bounds, "depth": res.depth, "tlc_wall_s": round(res.wall, 1)}

    # 2. behaviours out of TLC (smaller bounds: one history per run-ending transition)
    emit_bounds = dict(max_changes=2, max_crashes=1, max_syncs=2) if tier == "quick" else dict(max_changes=2, max_crashes=2, max_syncs=3)
    sub = fam if tier == "thorough" else fam
    with open(mc_path, "w") as f:
        json.dump(dict(cfgs=cfgs, names=ALL_NAMES, torn=["", "1"], unq=unq, atomic=atomic, flag_vanished=flagv, **emit_bounds), f)
    res2 = run_tlc("MC_SyncDeps", "MC_SyncDeps_emit.cfg", run, env={"SYNC_CFGS": mc_path}, workers=1, timeout=3000, tag="emit")
    require_ok(res2, "SyncDeps emission")
    hists = parse_hist_lines(res2.out)
    if not hists:
        raise MachineryFailure("no behaviours emitted by TLC")
    maxh = 2500 if tier == "quick" else 40000
    if len(hists) > maxh:
        rng.shuffle(hists)
        hists = hists[:maxh]
    rnd = crash_sweep(run, fam, rng, 2500 if tier == "quick" else 10**9)
    rnd += random_histories(fam, rng, 300 if tier == "quick" else 5000, 6 if tier == "quick" else 10)

    traces = []
    for i, h in enumerate(hists + rnd):
        d = run.sub("sd_%d" % i)
        os.makedirs(d, exist_ok=True)
        ev = replay_history(run, fam, h, os.path.join(d, "deps"), reuse=(i % 2 == 1))
        traces.append({"id": i, "events": ev, "src": "tlc" if i < len(hists) else "sweep/random"})
        import shutil

        shutil.rmtree(d, ignore_errors=True)
    allh = hists + rnd
    run.add("evaluations", len(traces))

    # 3. trace validation by TLC
    verdicts, res3 = validate_traces(run, fam, traces, atomic, "all")
    run.add("states", res3.distinct)
    run.add("transitions", res3.generated)
    nontriv = 0
    nonconf = 0
    for t in traces:
        bad, conform, fsok = verdicts[t["id"]]
        h = allh[t["id"]]
        if any(k == "sync" and a >= 0 for k, a, _ in h):
            nontriv += 1
        if not fsok:
            raise MachineryFailure("file-system model and disk disagree in trace %d: %s" % (t["id"], json.dumps(h)))
        if not conform:
            nonconf += 1
            run.drift("operation sequence differs from SyncDeps algorithm")
        if bad:
            tags = {bad}
            run.report(
                "sync_deps: %s fails at the end of history %s" % (bad, json.dumps(h)),
                {"history": h, "configs": [fam[a - 1]["label"] for k, a, _ in h if k == "cfg"], "events": t["events"], "clause": bad},
                tags,
            )
        else:
            run.add("traces_validated_against_impl")
    if nonconf:
        run.note("drift: %d of %d recorded runs are not step-for-step behaviours of SyncDeps (properties still judged on them)" % (nonconf, len(traces)))
    run.cov["distinct_nontrivial"] = nontriv
    run.cov["rule"] = (
        "histories = every run-ending transition of the TLC model (shortest witness) + crash sweep [A, sync, B, sync dying at every operation the real code performs (torn or not), C, sync] + seeded random histories; "
        "non-trivial = history contains at least one injected crash; configs are (tree version, user assignment) pairs "
        "over 3 tree versions (option removed / removed but still referenced / option added) with 2 aliases"
    )
    run.sample({"history": allh[0], "events": traces[0]["events"][:12]})
    run.sample({"history": allh[len(hists) // 2], "events": traces[len(hists) // 2]["events"][:20]})
    run.assumptions += [
        "a crash is an exception raised instead of a Python-level file operation (writes reach the file line by line, the dying write may be torn)",
        "configuration records (w/val/aliases/vv) are read from the real Kconfig object and the generated header",
        "names are upper-case so that a .cdep path maps back to its option name",
    ]

"""C13 — outputs rewritten only when they change; a save never loses both copies.

1. TLC checks spec/SaveFile.tla exhaustively: the three writer flows, every
   initial condition (destination absent / regular / symlink, stale .old,
   changed / unchanged contents), a crash in place of every operation, torn
   chunks; invariants NeverBothLost, UnchangedUntouched, Completed, BackupMade.
2. The real writers are run under the interposer for the same initial
   conditions with the process killed at every operation they perform; the
   recorded operations are validated by TLC against spec/Trace_Save.tla, which
   evaluates the same clauses after every operation.
"""
import json
import os
import shutil

from .. import kc
from ..common import MachineryFailure
from ..fsx import Crash, FsTap
from ..tlc import require_coverage, require_ok, run_tlc
from ..tlaval import parse_value

TREE = '''mainmenu "t"
config A
    bool "A"
    default y
config N
    int "N"
    default 5
config S
    string "S"
    default "x"
menu "M"
config H
    hex "H"
    default 0x10
endmenu
'''
RENAMES = "CONFIG_OLDA CONFIG_A\nCONFIG_OLDA2 CONFIG_A\nCONFIG_OLDA3 !CONFIG_A\nCONFIG_OLDN CONFIG_N\nCONFIG_OLDN2 CONFIG_N\n"
# c3: a value outside ASCII (bytes and characters differ in number)
CONFIGS = {"c0": {}, "c1": {"A": "n", "N": "7"}, "c2": {"S": 'long "q" \\ text'}, "c3": {"S": "caf\u00e9 \u2615"}}


def make(run, cfg):
    k = kc.build(TREE, run.scratch, renames=RENAMES)
    for n, v in CONFIGS[cfg].items():
        k.syms[n].set_value(v)
    return k


def writers():
    """name -> (flow, function(kconf, path)) for the direct library writers."""
    return {
        "write_config": ("cfg", lambda k, p: k.write_config(p, header="# hdr\n", write_deprecated=True)),
        "write_config_nohdr": ("cfg", lambda k, p: k.write_config(p)),
        "write_autoconf": ("wic", lambda k, p: k.write_autoconf(p, header="/* h */\n", write_deprecated=True)),
        "write_min_config": ("wic", lambda k, p: k.write_min_config(p)),
        "write_min_config_labels": ("wic", lambda k, p: k.write_min_config(p, labels=True, normalize_unset=True)),
    }


GEN_FORMATS = ["config", "header", "cmake", "json", "savedefconfig", "json_menus", "docs", "report"]


_GEN = {}


def gen_inputs(run):
    """Kconfig, rename file and one sdkconfig per configuration for kconfgen main()."""
    if not _GEN:
        d = run.sub("gen_in")
        os.makedirs(d, exist_ok=True)
        _GEN["kconfig"] = kc.write_text(os.path.join(d, "Kconfig"), TREE)
        _GEN["rename"] = kc.write_text(os.path.join(d, "sdkconfig.rename"), RENAMES)
        for c in CONFIGS:
            k = make(run, c)
            p = os.path.join(d, "sdkconfig." + c)
            k.write_config(p, save_old=False)
            _GEN[c] = p
    return _GEN


def run_gen(run, cfg, fmt, dest):
    """The real kconfgen main() (click callback), in-process, one --output."""
    import kconfgen.core as kg

    g = gen_inputs(run)
    os.environ.setdefault("IDF_TARGET", "esp32")  # the docs format insists on a target
    kg.main.callback(
        sdkconfig_file=g[cfg],
        defaults=(),
        kconfig=g["kconfig"],
        sdkconfig_rename=g["rename"],
        dont_write_deprecated=False,
        menuconfig=False,
        output=[(fmt, dest)],
        env=(),
        env_file=None,
        list_separator="space",
    )


def read_file(p):
    if not os.path.lexists(p):
        return {"ex": False, "data": ""}
    if os.path.islink(p) and not os.path.exists(p):
        return {"ex": False, "data": ""}
    with open(p, newline="") as f:
        return {"ex": True, "data": f.read()}


class Scenario:
    def __init__(self, run, idx):
        self.d = run.sub("sv_%d" % idx)
        os.makedirs(self.d)
        self.dest = os.path.join(self.d, "out.file")
        self.old = self.dest + ".old"
        self.target = os.path.join(self.d, "real.file")

    def setup(self, prev_text, link, stale):
        if prev_text is not None:
            if link:
                kc.write_text(self.target, prev_text)
                os.symlink(self.target, self.dest)
            else:
                kc.write_text(self.dest, prev_text)
        if stale:
            kc.write_text(self.old, "stale backup\n")

    def classify(self, p):
        if p is None:
            return "other"
        ap = os.path.abspath(p)
        if ap in (os.path.abspath(self.dest), os.path.abspath(self.target)):
            return "dest"
        if ap == os.path.abspath(self.old):
            return "old"
        b = os.path.basename(ap)
        if b.startswith("kconfgen_tmp") and not b.endswith(".old"):
            return "tmp"
        return "other"

    def cleanup(self):
        shutil.rmtree(self.d, ignore_errors=True)


def ops_to_events(sc, ops):
    ev = []
    for o in ops:
        op = o["op"]
        if op in ("read", "close", "mkdirs", "mkdir"):
            continue
        if op == "crash":
            inst = o.get("instead_of")
            if o.get("torn") is not None:
                f = sc.classify(o.get("path"))
                if f != "other":
                    ev.append({"e": "torn", "f": f, "d": o["torn"]})
            ev.append({"e": "crash", "instead_of": inst})
            continue
        if op in ("open_w", "open_a"):
            f = sc.classify(o["path"])
            if f != "other":
                ev.append({"e": "open", "f": f})
        elif op == "copy_open":
            f = sc.classify(o["dst"])
            if f != "other":
                ev.append({"e": "open", "f": f})
        elif op == "copy_link" and o.get("failed"):
            continue
        elif op == "copy_link":
            # the new name resolves to the file the source link points to
            f, g = sc.classify(o["dst"]), sc.classify(os.path.realpath(o["src"]))
            if f == "old" and g == "dest":
                ev.append({"e": "alias", "f": f})
            elif f != "other" or g != "other":
                ev.append({"e": "meta", "f": f if f != "other" else g})
        elif op in ("write", "copy_write"):
            f = sc.classify(o["path"])
            if f != "other":
                ev.append({"e": "write", "f": f, "d": o["data"]})
        elif op == "replace":
            s, d = sc.classify(o["src"]), sc.classify(o["dst"])
            if s != "other" or d != "other":
                ev.append({"e": "replace", "src": s, "dst": d})
        elif op == "remove":
            f = sc.classify(o["path"])
            if f != "other":
                ev.append({"e": "remove", "f": f})
        elif op in ("utime", "touch"):
            f = sc.classify(o["path"])
            if f != "other":
                ev.append({"e": "meta", "f": f})
    return ev


def stat_sig(p):
    try:
        st = os.stat(p)
        lst = os.lstat(p)
        return (st.st_ino, st.st_mtime_ns, st.st_size, lst.st_ino, lst.st_mtime_ns)
    except OSError:
        return None


def one_run(run, idx, flow, fn, prev_cfg, new_cfg, link, stale, crash_at, torn, texts):
    """Returns (events, number of mutating ops, crashed)."""
    import kconfgen.core as kg

    sc = Scenario(run, idx)
    try:
        # "cN~": the previous contents as somebody's editor left them, without the final newline
        prev_text = (texts[prev_cfg[:-1]].rstrip("\n") if prev_cfg.endswith("~") else texts[prev_cfg]) if prev_cfg else None
        sc.setup(prev_text, link, stale)
        before = stat_sig(sc.dest)
        ev = [
            {
                "e": "begin",
                "flow": flow,
                "dest": read_file(sc.dest),
                "old": read_file(sc.old),
                "link": bool(link and prev_text is not None),
                "new": texts[new_cfg],
            }
        ]
        tap = FsTap([kc.core, kg], crash_at=crash_at, torn=torn)
        crashed = False
        with tap:
            try:
                fn(new_cfg, sc.dest)
            except Crash:
                crashed = True
        ev += ops_to_events(sc, tap.ops)
        after = stat_sig(sc.dest)
        ev.append({"e": "end", "stat_same": before == after, "crashed": crashed, "disk": {"dest": read_file(sc.dest), "old": read_file(sc.old)}})
        return ev, tap.n, crashed
    finally:
        sc.cleanup()


def expected_texts(run, fn):
    """What the writer produces for each configuration (untapped, into scratch)."""
    out = {}
    for c in CONFIGS:
        p = run.sub("exp_%s" % c)
        try:
            fn(c, p)
            with open(p, newline="") as f:
                out[c] = f.read()
        except (Exception, SystemExit) as e:
            return None, "%s: %r" % (c, e)
        os.unlink(p)
        if os.path.exists(p + ".old"):
            os.unlink(p + ".old")
    return out, None


def cross_process(run):
    """Regeneration by another process: every build runs kconfgen anew, with its own hash seed.  An unchanged
    configuration must leave every output untouched then, too (several aliases per option in the rename table)."""
    import subprocess
    import sys

    from ..common import REPO

    g = gen_inputs(run)
    d = run.sub("xproc")
    os.makedirs(d, exist_ok=True)
    sdk = os.path.join(d, "sdkconfig")
    shutil.copyfile(g["c1"], sdk)
    outs = {fmt: os.path.join(d, "out." + fmt) for fmt in ("config", "header", "cmake", "json", "json_menus", "docs")}
    cmd = [sys.executable, "-m", "kconfgen", "--kconfig", g["kconfig"], "--config", sdk, "--sdkconfig-rename", g["rename"]]
    for fmt, p in outs.items():
        cmd += ["--output", fmt, p]
    first = {}
    n = 0
    for seed in ("1", "2", "3", "4", "5", "0"):
        env = dict(os.environ, PYTHONHASHSEED=seed, PYTHONPATH=REPO, IDF_TARGET="esp32", KCONFIG_REPORT_VERBOSITY="quiet")
        r = subprocess.run(cmd, cwd=d, env=env, capture_output=True, text=True)
        if r.returncode != 0:
            run.report("kconfgen (subprocess, hash seed %s) failed: %s" % (seed, r.stderr[-300:]), {"cmd": cmd, "stderr": r.stderr[-1000:]}, {"kconfgen-subprocess", "exception"})
            return n
        for fmt, p in outs.items():
            with open(p, newline="") as f:
                text = f.read()
            sig = stat_sig(p)
            if fmt not in first:
                os.utime(p, ns=(10**18, 10**18))
                first[fmt] = (text, stat_sig(p))
            else:
                n += 1
                if text != first[fmt][0] or sig != first[fmt][1]:
                    a, b = first[fmt][0].splitlines(), text.splitlines()
                    diff = next(((x, y) for x, y in zip(a, b) if x != y), (len(a), len(b)))
                    run.report(
                        "kconfgen:%s (another process, hash seed %s): UnchangedUntouched fails: the output of an unchanged configuration was rewritten (%s)" % (fmt, seed, "contents differ: %r" % (diff,) if text != first[fmt][0] else "same contents, file replaced or touched"),
                        {"format": fmt, "hash_seed": seed, "first_difference": diff, "rename_file": RENAMES},
                        {"UnchangedUntouched", "kconfgen:" + fmt, "cross-process"},
                    )
                    first[fmt] = (text, sig)
    return n


def main(run):
    tier = run.tier
    # 1. the model
    res = run_tlc("MC_SaveFile", "MC_SaveFile.cfg", run, workers=8, coverage=True, tag="mc")
    require_ok(res, "SaveFile model")
    require_coverage(res, ["Start", "TmpWrite", "Compare", "SaveOldReplace", "SaveOldCopyOpen", "SaveOldCopyChunk", "OpenW", "WriteChunk", "RemoveTmp", "Crash"], "SaveFile model")
    run.add("states", res.distinct)
    run.add("transitions", res.generated)
    run.cov["exhaustive"] = True
    run.cov["model"] = {"flows": ["cfg", "wic", "gen"], "max_chunks": 3, "depth": res.depth}

    # 2. real runs, crash at every operation
    flows = []
    gen_inputs(run)
    for name, (flow, fn) in writers().items():
        flows.append((name, flow, (lambda w: (lambda c, p: w(make(run, c), p)))(fn)))
    for fmt in GEN_FORMATS:
        flows.append(("kconfgen:" + fmt, "gen", (lambda f: (lambda c, p: run_gen(run, c, f, p)))(fmt)))
    traces = []
    meta = []
    idx = 0
    cfgs = list(CONFIGS)
    for name, flow, fn in flows:
        texts, err = expected_texts(run, fn)
        if texts is None:
            run.report("%s does not produce its output into a fresh path: %s" % (name, err), {"writer": name, "error": err}, {"Completed", name})
            continue
        prevs = [None, "c0", "c1", "c3"] if tier == "quick" else [None] + cfgs
        if flow != "gen":
            prevs = prevs + (["c1~"] if tier == "quick" else ["c0~", "c1~", "c3~"])
        news = ["c0", "c2", "c3"] if tier == "quick" else cfgs
        for prev in prevs:
            for new in news:
                for link in (False, True):
                    if link and prev is None:
                        continue
                    for stale in (False, True):
                        if stale and flow != "cfg":
                            continue
                        if tier == "quick" and flow == "gen" and (link or name not in ("kconfgen:config", "kconfgen:json", "kconfgen:cmake") and prev == "c1"):
                            continue
                        ev, nops, _ = one_run(run, idx, flow, fn, prev, new, link, stale, None, None, texts)
                        idx += 1
                        traces.append({"id": len(traces), "events": ev})
                        meta.append(dict(writer=name, prev=prev, new=new, link=link, stale=stale, crash_at=None, torn=None))
                        ks = range(nops)
                        for k_ in ks:
                            for torn in (None, 0.5):
                                ev, _, crashed = one_run(run, idx, flow, fn, prev, new, link, stale, k_, torn, texts)
                                idx += 1
                                traces.append({"id": len(traces), "events": ev})
                                meta.append(dict(writer=name, prev=prev, new=new, link=link, stale=stale, crash_at=k_, torn=torn))
    run.add("evaluations", len(traces))
    run.cov["cross_process_regenerations"] = cross_process(run)

    # 3. validation by TLC
    # TLC only sees 7-bit text: its on-disk state queue does not round-trip other characters (a large batch gave
    # verdicts that a small one did not).  The encoding is character-wise, hence compatible with concatenation
    # and with torn chunks.
    def ascii7(x):
        if isinstance(x, str):
            return x.encode("unicode_escape").decode("ascii")
        if isinstance(x, list):
            return [ascii7(v) for v in x]
        if isinstance(x, dict):
            return {k: (ascii7(v) if k in ("d", "data", "new", "dest", "old", "disk", "events") else v) for k, v in x.items()}
        return x

    path = run.sub("save_traces.json")
    with open(path, "w") as f:
        json.dump({"traces": [ascii7(t) for t in traces]}, f)
    if os.environ.get("VERIF_KEEP_TRACES"):
        shutil.copyfile(path, os.environ["VERIF_KEEP_TRACES"])
    res2 = run_tlc("Trace_Save", "Trace_Save.cfg", run, env={"SAVE_TRACES": path}, workers=1, tag="trace")
    require_ok(res2, "Trace_Save")
    run.add("states", res2.distinct)
    run.add("transitions", res2.generated)
    verdicts = {}
    from ..tlc import extract_tuples

    for v in extract_tuples(res2.out, 'V"'):
        verdicts[v[1]] = (v[2], v[3])
    nontriv = 0
    for t, m in zip(traces, meta):
        if t["id"] not in verdicts:
            raise MachineryFailure("trace %d not consumed: %s" % (t["id"], m))
        bad, fsok = verdicts[t["id"]]
        if not fsok:
            raise MachineryFailure("file model and disk disagree: %s\n%s" % (m, json.dumps(t["events"])[:3000]))
        if m["crash_at"] is not None or (m["prev"] == m["new"]):
            nontriv += 1
        if bad:
            run.report("%s: %s fails (%s)" % (m["writer"], bad, m), {"scenario": m, "events": t["events"], "clause": bad}, {bad, m["writer"]})
        else:
            run.add("traces_validated_against_impl")
    run.cov["distinct_nontrivial"] = nontriv
    run.cov["rule"] = (
        "one trace per (writer, previous contents, new contents, symlink?, stale .old?, crash point, torn?) with the crash "
        "point ranging over every mutating operation the real writer performs; non-trivial = a crash is injected or the "
        "regeneration is for unchanged contents; writers: " + ", ".join(n for n, _, _ in flows)
    )
    run.sample({"scenario": meta[0], "events": [{k: (v if k != "d" else v[:40]) for k, v in e.items() if k not in ("dest", "old", "new", "disk")} for e in traces[0]["events"]]})
    mid = len(traces) // 3
    run.sample({"scenario": meta[mid], "events": [{k: (v if k != "d" else v[:40]) for k, v in e.items() if k not in ("dest", "old", "new", "disk")} for e in traces[mid]["events"]]})
    run.assumptions += [
        "a crash is an exception raised instead of a Python-level file operation; writes reach the file line by line and the dying write may be torn",
        "kconfgen formats are produced by the real kconfgen main() (click callback) run in-process with one --output",
        "fsync / directory-entry durability is outside the model",
    ]

"""C19 — the deprecated-options check depends only on a file's own scope.

spec/DeprScope.tla states which rename files apply to a defaults file (global:
IDF root + components; local: the file's nearest enclosing project, excluding
nested projects) and transcribes the implementation's memoised project-root
search and lazy per-project sets.  For each generated directory universe TLC
explores every order of checking every subset of the files (MC_Depr.tla) with
ScopeExact / MemoSound / LocalSound as invariants and compares, for every
order, the verdicts and the memo contents observed on the real functions in a
materialised copy of the tree."""
import itertools
import json
import os
import random
import shutil
import subprocess
import sys

from .. import kc
from ..common import MachineryFailure, REPO
from ..tlc import extract_tuples, run_tlc

SKELETON = ["OUT", "R", "R/components", "R/components/c", "R/proj", "R/proj/sub", "R/proj/nested", "R/proj/nested/inner", "R/sib", "R/orphan", "R/sdkconfig.rename.d"]
PARENT = {"OUT": "OUT", "R": "OUT", "R/components": "R", "R/components/c": "R/components", "R/proj": "R", "R/proj/sub": "R/proj", "R/proj/nested": "R/proj", "R/proj/nested/inner": "R/proj/nested", "R/sib": "R", "R/orphan": "R", "R/sdkconfig.rename.d": "R"}
PROJECTS_DEFAULT = {"R/proj", "R/proj/nested", "R/sib"}
RENAME_DIRS = ["R", "R/components/c", "R/proj", "R/proj/sub", "R/proj/nested", "R/proj/nested/inner", "R/sib", "R/orphan"]
FILE_DIRS = ["R/components/c", "R/proj", "R/proj/sub", "R/proj/nested", "R/proj/nested/inner", "R/sib", "R/orphan"]
ODD_DIR = "R/sdkconfig.rename.d"  # a directory whose NAME looks like a rename file: files in it are ordinary defaults files


def old_name(d):
    return "CONFIG_OLD_" + d.replace("/", "_").upper()


def universes(rng, n, fixed=True):
    out = []
    combos = []
    if fixed:
        # seed-independent core: every single rename placement x a file in every directory using that name
        for rd in RENAME_DIRS:
            combos.append(([rd], [(fd, [old_name(rd)]) for fd in FILE_DIRS][:3]))
            combos.append(([rd], [(fd, [old_name(rd)]) for fd in FILE_DIRS][3:6]))
            combos.append(([rd], [(fd, [old_name(rd)]) for fd in FILE_DIRS][5:]))
        combos.append((["R/proj", "R/proj/nested", "R/sib"], [("R/proj/sub", [old_name("R/proj/nested"), old_name("R/sib")]), ("R/proj/nested", [old_name("R/proj")]), ("R/proj", [old_name("R/proj")])]))
        # a nested project with rename files in two of its directories, checked after / before files of the outer project
        two = ["R/proj/nested", "R/proj/nested/inner"]
        combos.append((two, [("R/proj", [old_name(two[0])]), ("R/proj/nested", [old_name(two[1])]), ("R/proj/nested/inner", [old_name(two[0])])]))
        combos.append((two + ["R/proj"], [("R/proj/sub", [old_name(two[1])]), ("R/proj/nested", [old_name(two[0]), old_name(two[1])]), ("R/proj/nested", [old_name("R/proj")])]))
    fixed_combos = list(combos)
    for _ in range(n):
        rds = rng.sample(RENAME_DIRS, rng.choice([1, 2, 3]))
        files = []
        for _ in range(rng.choice([2, 3])):
            fd = rng.choice(FILE_DIRS)
            uses = rng.sample([old_name(r) for r in RENAME_DIRS], rng.choice([1, 1, 2]))
            files.append((fd, uses))
        combos.append((rds, files))
    extras = [([], [])] * len(combos)
    if fixed:
        # rename files named on the command line / found below an --includes directory are global
        for rd, inc in (("R/sib", False), ("R/orphan", False), ("R/proj/nested", False), ("R/orphan", True), ("R/proj/nested", True), ("R/proj", True)):
            combos.append(([rd, "R/proj/sub"], [(fd, [old_name(rd)]) for fd in ("R/proj", "R/sib", "R/components/c")]))
            extras.append(([] if inc else [rd], [rd] if inc else []))
    if fixed:
        # several rename files named in one invocation (each is global wherever it stands among the arguments)
        for ex in (["R/orphan", "R/sib"], ["R/sib", "R/orphan"]):
            combos.append((["R/orphan", "R/sib", "R/proj/sub"], [("R/proj", [old_name(ex[1])]), ("R/components/c", [old_name(ex[0])]), ("R/proj", [old_name("R/proj/sub")])]))
            extras.append((list(ex), []))
    if fixed:
        combos.append((["R/components/c"], [(ODD_DIR, [old_name("R/components/c")]), ("R/orphan", [old_name("R/components/c")])]))
        extras.append(([], []))
        combos.append((["R"], [(ODD_DIR, [old_name("R")])]))
        extras.append(([], []))
    fixed_combos += combos[len(extras) - (10 if fixed else 0):]
    for _ in range(n // 4):
        rds = rng.sample(RENAME_DIRS, rng.choice([2, 3]))
        files = [(rng.choice(FILE_DIRS), rng.sample([old_name(r) for r in RENAME_DIRS], rng.choice([1, 2]))) for _ in range(rng.choice([2, 3]))]
        combos.append((rds, files))
        extras.append((rng.sample(rds, 1) if rng.random() < 0.6 else [], [rng.choice(["R/orphan", "R/proj/nested", "R/sib", "R/proj"])] if rng.random() < 0.6 else []))
    handmade = {k for k, c in enumerate(combos) if c in fixed_combos}
    for k, ((rds, files), (explicit, includes)) in enumerate(zip(combos, extras)):
        projects = set(PROJECTS_DEFAULT)
        if k not in handmade and rng.random() < 0.2:  # the hand-made universes keep every project marker
            projects.discard(rng.choice(sorted(projects)))
        out.append(
            {
                "dirs": SKELETON,
                "parent": PARENT,
                "isproject": {d: d in projects for d in SKELETON},
                "rename": {d: ([old_name(d)] if d in rds else []) for d in SKELETON},
                "idf": "R",
                "components": "R/components",
                "files": [{"dir": fd, "uses": uses} for fd, uses in files],
                "explicit": list(explicit),
                "includes": list(includes),
            }
        )
    return out


def materialise(base, u):
    real = {"OUT": base}
    for d in u["dirs"]:
        if d == "OUT":
            continue
        real[d] = os.path.join(base, d)
        os.makedirs(real[d], exist_ok=True)
        if u["isproject"][d]:
            kc.write_text(os.path.join(real[d], "CMakeLists.txt"), "cmake_minimum_required(VERSION 3.16)\nproject(x)\n")
        if u["rename"][d]:
            kc.write_text(os.path.join(real[d], "sdkconfig.rename"), "".join("%s CONFIG_NEW_%d\n" % (n, k) for k, n in enumerate(u["rename"][d])))
    paths = []
    for k, f in enumerate(u["files"]):
        p = os.path.join(real[f["dir"]], "sdkconfig.defaults.%d" % k)
        kc.write_text(p, "".join("%s=y\n" % n for n in f["uses"]) + "CONFIG_FINE=y\n")
        paths.append(p)
    return real, paths


def main(run):
    tier = run.tier
    rng = random.Random(run.seed)
    import kconfcheck.check_deprecated_options as cdo

    us = universes(rng, 60 if tier == "quick" else 1500)
    total = 0
    old_idf = os.environ.get("IDF_PATH")
    sub_checked = 0
    for ui, u in enumerate(us):
        base = run.sub("depr_%d" % ui)
        os.makedirs(base)
        real, paths = materialise(base, u)
        inv = {os.path.abspath(v): k for k, v in real.items()}
        os.environ["IDF_PATH"] = real["R"]
        obs = {}
        n = len(paths)
        import contextlib
        import io

        sink = io.StringIO()
        for r in range(0, n + 1):
            for order in itertools.permutations(range(n), r):
              with contextlib.redirect_stdout(sink):
                  named = [os.path.join(real[d_], "sdkconfig.rename") for d_ in u["explicit"] if u["rename"][d_]]
                  # the named rename files stand after, before or between the files to check
                  fl = [paths[k] for k in order]
                  pos = sum(order) % 3 if named else 0
                  argv = fl + named if pos == 0 else named + fl if pos == 1 else fl[:1] + named[:1] + fl[1:] + named[1:]
                  files, gdep, ldep, ignore, cache, idf = cdo._prepare_deprecated_options([real[d_] for d_ in u["includes"]], [], argv)
                  verdict = ["<unset>"] * n
                  err = None
                  for k in order:
                      try:
                          res = cdo.check_deprecated_options(paths[k], gdep, ldep, ignore, cache, idf)
                      except Exception as e:
                          err = "%s: %s" % (type(e).__name__, str(e)[:200])
                          break
                      verdict[k] = "ok" if res else "flagged"
                  if err:
                      run.report("check_deprecated_options raised %s" % err, {"universe": u, "order": list(order), "exception": err}, {"exception"})
                      continue
                  memo = []
                  for d in u["dirs"]:
                      ap = os.path.abspath(real[d])
                      if ap in cache:
                          memo.append("<none>" if cache[ap] is None else inv.get(os.path.abspath(cache[ap]), "OUT"))
                      else:
                          memo.append("<unset>")
                  # directories above the materialised tree all count as OUT (no project up there)
                  key = "<<" + ", ".join(str(k + 1) for k in order) + ">>"
                  obs[key] = {"verdict": verdict, "memo": memo}
                  total += 1
        u["obs"] = obs
        # the command line, once per universe (all files, given order)
        if tier == "thorough" or ui % 6 == 0 or any(f["dir"] == ODD_DIR for f in u["files"]) or len(u["explicit"]) > 1:
            env = dict(os.environ, IDF_PATH=real["R"], PYTHONPATH=REPO)
            named = [os.path.join(real[d_], "sdkconfig.rename") for d_ in u["explicit"] if u["rename"][d_]]
            incl = [a for d_ in u["includes"] for a in ("--includes", real[d_])]
            p = subprocess.run([sys.executable, "-m", "kconfcheck", "--check", "deprecated"] + (named + paths if ui % 2 else paths + named) + incl, cwd=real["R"], env=env, capture_output=True, text=True)
            want_fail = any(v == "flagged" for v in obs["<<" + ", ".join(str(k + 1) for k in range(n)) + ">>"]["verdict"])
            if (p.returncode != 0) != want_fail:
                run.report("python -m kconfcheck --check deprecated: exit status %d, per-file verdicts %s" % (p.returncode, obs), {"universe": u, "stderr": p.stderr[-500:]}, {"cli-exit-status"})
            sub_checked += 1
        shutil.rmtree(base, ignore_errors=True)
    if old_idf is None:
        os.environ.pop("IDF_PATH", None)
    else:
        os.environ["IDF_PATH"] = old_idf
    run.add("evaluations", total)
    # the memo of OUT: anything cached above the tree is None -> the model's OUT
    path = run.sub("depr.json")
    with open(path, "w") as f:
        json.dump({"universes": us}, f)
    res = run_tlc("MC_Depr", "MC_Depr.cfg", run, env={"DEPR_DATA": path}, workers=16, coverage=False, timeout=3000, tag="depr")
    os.unlink(path)
    if res.violated or not res.ok:
        from ..tlc import format_trace

        raise MachineryFailure("MC_Depr: %s\n%s\n%s" % (res.violated, format_trace(res)[-2500:], (res.error or res.out[-2000:])[:2500]))
    run.add("states", res.distinct)
    run.add("transitions", res.generated)
    bad = 0
    for v in extract_tuples(res.out, "R-|P-"):
        tag, t, hist, a, b = v[0], v[1], v[2], v[3], v[4]
        bad += 1
        run.report("%s for order %s: %s vs %s" % (tag, hist, a, b), {"universe": {k: v_ for k, v_ in us[t - 1].items() if k != "obs"}, "order": hist, "clause": tag, "expected": a, "observed": b}, {tag})
    run.cov["traces_validated_against_impl"] = total - bad
    run.cov["distinct_nontrivial"] = sum(1 for u in us for k in u["obs"] if k.count(",") >= 1)
    run.cov["universes"] = len(us)
    run.cov["cli_runs"] = sub_checked
    run.cov["exhaustive"] = True
    run.cov["rule"] = (
        "directory universes over an 11-directory skeleton (outside, IDF root, components/c, project, its sub-directory, nested project and a directory of it, a directory named like a rename file, "
        "sibling project, orphan directory): every single rename placement with files in every directory (fixed part) + seeded "
        "placements of <= 3 rename files and <= 3 defaults files, occasionally with a project marker removed; per universe every order "
        "of every subset of the files, explored by TLC and run on the real functions; non-trivial = orders of >= 2 files"
    )
    run.sample({"universe": {k: v for k, v in us[0].items() if k != "obs"}, "observed": us[0]["obs"]})
    run.assumptions += ["the IDF root is not itself a project root", "directories above the materialised tree contain no CMakeLists.txt with project()"]

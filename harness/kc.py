"""Construct and observe real esp_kconfiglib objects (imported from /repo)."""
import os
import re
import sys

from .common import REPO

os.environ.setdefault("KCONFIG_REPORT_VERBOSITY", "quiet")
os.environ.setdefault("PYTHONDONTWRITEBYTECODE", "1")
sys.dont_write_bytecode = True
if REPO not in sys.path:
    sys.path.insert(0, REPO)

import esp_kconfiglib.core as core  # noqa: E402
from esp_kconfiglib.core import BOOL, FLOAT, HEX, INT, STRING, Kconfig, KconfigError  # noqa: E402,F401

TYPE_NAME = {BOOL: "bool", INT: "int", HEX: "hex", STRING: "string", FLOAT: "float"}

_counter = [0]


def quiet_logging():
    import logging

    logging.disable(logging.CRITICAL)
    try:
        from esp_pylib import logger as _l  # noqa: F401
    except Exception:
        pass


quiet_logging()


def write_text(path, text):
    with open(path, "w", encoding="utf-8", newline="") as f:
        f.write(text)
    return path


def build(text, scratch, renames=None, parser_version=1, name=None, extra_files=None, policy=None):
    """Real Kconfig from Kconfig text (+ optional rename-file text)."""
    _counter[0] += 1
    # one directory per distinct input (not per construction: thorough tiers construct millions of instances)
    import hashlib

    key = hashlib.sha1(repr((text, sorted((extra_files or {}).items()), renames)).encode("utf-8", "surrogatepass")).hexdigest()[:20]
    d = os.path.join(scratch, name or ("k" + key))
    os.makedirs(d, exist_ok=True)
    kpath = write_text(os.path.join(d, "Kconfig"), text)
    for fn, tx in (extra_files or {}).items():
        write_text(os.path.join(d, fn), tx)
    old_policy = os.environ.get("KCONFIG_DEFAULTS_POLICY")
    if policy is not None:
        os.environ["KCONFIG_DEFAULTS_POLICY"] = policy
    try:
        kconf = Kconfig(kpath, parser_version=parser_version)
    finally:
        if policy is not None:
            if old_policy is None:
                os.environ.pop("KCONFIG_DEFAULTS_POLICY", None)
            else:
                os.environ["KCONFIG_DEFAULTS_POLICY"] = old_policy
    if renames is not None:
        rpath = write_text(os.path.join(d, "sdkconfig.rename"), renames)
        kconf.load_rename_files([rpath])
    reset_report(kconf)
    return kconf


def reset_report(kconf):
    try:
        kconf.report.reset()
    except Exception:
        pass


_DEFINE = re.compile(r"^#define CONFIG_(\w+) (.*)$")


def header_values(kconf, scratch):
    """name -> value as a C compiler would see it in the generated header
    (aliases resolved through their #define target). Absent names are absent."""
    p = os.path.join(scratch, "hdr_%d.h" % os.getpid())
    kconf.write_autoconf(p, write_deprecated=True)
    with open(p) as f:
        text = f.read()
    os.unlink(p)
    raw = {}
    for line in text.splitlines():
        m = _DEFINE.match(line)
        if m:
            raw[m.group(1)] = m.group(2)
    out = {}
    for k, v in raw.items():
        m = re.match(r"^(!?)CONFIG_(\w+)$", v)
        if m:
            tgt = raw.get(m.group(2))
            if tgt is None:
                continue
            out[k] = ("!" if m.group(1) else "") + tgt
        else:
            out[k] = v
    return out, text

"""Shared machinery for the stateless evaluation checks (C01, C05, C06):
programs -> real observations for every enumerated configuration -> one TLC
run of spec/MC_Eval.tla that compares them with spec/KEval.tla and checks the
property invariants."""
import json
import os
import re

from . import kc, ktree
from .common import MachineryFailure
from .tlc import require_ok, run_tlc
from .tlaval import parse_value

_SET = re.compile(r"^CONFIG_([A-Za-z0-9_]+)=(.*)$")
_UNSET = re.compile(r"^# CONFIG_([A-Za-z0-9_]+) is not set$")


def unescape(s):
    return re.sub(r"\\(.)", r"\1", s)


def parse_config_line(line, typ):
    """value carried by one sdkconfig line (harness's own reading of the format)."""
    m = _UNSET.match(line)
    if m:
        return m.group(1), "n"
    m = _SET.match(line)
    if not m:
        return None, None
    name, rhs = m.group(1), m.group(2)
    if typ == "string":
        if len(rhs) >= 2 and rhs[0] == '"' and rhs[-1] == '"':
            return name, unescape(rhs[1:-1])
        return name, "<malformed:%s>" % rhs
    return name, rhs


def line_of(sym, typ):
    cs = sym.config_string
    if not cs:
        return "absent", False
    lines = cs.rstrip("\n").split("\n")
    marked = len(lines) > 1 and lines[0].startswith("# default:")
    name, val = parse_config_line(lines[-1], typ)
    if name != sym.name:
        return "<malformed:%s>" % cs, marked
    return val, marked


def asg_text(sym):
    a = sym.assignable
    return "".join({0: "n", 2: "y"}.get(x, "?") for x in a)


def reset_user(kconf):
    """Back to 'no user values', then drop every cached result so that the next
    reads are from-scratch evaluations (cache coherence is C03's subject)."""
    for s in kconf.unique_defined_syms:
        s.unset_value()
    for c in kconf.unique_choices:
        c.unset_value()
    inv = getattr(kconf, "_invalidate_all", None)
    if inv is not None:
        inv()


def apply_assignment(kconf, prog_info, vars_, asg):
    reset_user(kconf)
    for v in vars_:
        val = asg[v["n"]]
        if val == ktree.NOVAL:
            continue
        if v["kind"] == "sym":
            kconf.syms[v["n"]].set_value(val)
        else:
            kconf.syms[val].set_value(2)


def observe(kconf, names, info):
    out = []
    for n in names:
        s = kconf.syms[n]
        typ = info[n]["type"]
        line, _ = line_of(s, typ)
        out.append([s.str_value, s.visibility, asg_text(s), line])
    return out


def observe_sel(kconf, prog, cids):
    """Selected member per choice id (choices are found through their members)."""
    out = []
    for cid in cids:
        mem = ktree.members(prog, cid)
        ch = kconf.syms[mem[0]].choice if mem else None
        sel = ch.selection if ch is not None else None
        out.append(sel.name if sel is not None else ktree.NOVAL)
    return out


ABSENT_N = -999999999
BAD_N = -999999998


def c_number(tok, typ, tab):
    """Numeric meaning of a token as a C compiler / JSON / CMake consumer reads it
    (harness's own reading). Floats are mapped to their rank in the float table."""
    import math
    import re as _re

    tok = tok.strip()
    if typ == "float":
        try:
            x = float(tok)
        except ValueError:
            return BAD_N, 0
        if not math.isfinite(x):
            return BAD_N, 0
        return tab["numf"].get(str(x), BAD_N), 0
    m = _re.fullmatch(r"([-+]?)(0[xX][0-9a-fA-F]+|0[0-7]*|[1-9][0-9]*)", tok)
    if not m:
        return BAD_N, 0
    body = m.group(2)
    if body[:2] in ("0x", "0X"):
        n, ox = int(body, 16), 1
    elif len(body) > 1 and body[0] == "0":
        n, ox = int(body, 8), 0  # C octal
    else:
        n, ox = int(body, 10), 0
    if m.group(1) == "-":
        n = -n
    if abs(n) >= 2**31:
        return BAD_N, ox
    return n, ox


def observe_outs(run, kconf, names, info, tab):
    import kconfgen.core as kg

    # a generator that raises on an accepted tree emitted nothing well-formed: every numeric option of that
    # format is recorded as malformed (BAD_N) so that the property predicate, not the harness, rejects it
    class _AllBad(dict):
        def __contains__(self, k):
            return True

        def __getitem__(self, k):
            return "<generator raised>"

        def get(self, k, d=None):
            return "<generator raised>"

    try:
        _, htext = kc.header_values(kconf, run.scratch)
        hdr = dict(re.findall(r"^#define CONFIG_(\w+) (.*)$", htext, re.M))
    except Exception:
        hdr = _AllBad()
    p = os.path.join(run.scratch, "cm_%d" % os.getpid())
    try:
        kg.write_cmake(kconf, p)
        with open(p) as f:
            cm = dict(re.findall(r'^set\(CONFIG_(\w+) "(.*)"\)$', f.read(), re.M))
    except Exception:
        cm = _AllBad()
    if os.path.exists(p):
        os.unlink(p)
    try:
        js = kg.get_json_values(kconf)
    except Exception:
        js = _AllBad()
    out = []
    for n in names:
        typ = info[n]["type"]
        if typ not in ("int", "hex", "float"):
            out.append([ABSENT_N, 0, ABSENT_N, 0, ABSENT_N])
            continue
        h, h0 = c_number(hdr[n], typ, tab) if n in hdr else (ABSENT_N, 0)
        if n in cm:
            tok = cm[n]
            if typ == "float":
                c_, c0 = c_number(tok, typ, tab)
            elif re.fullmatch(r"0[xX][0-9a-fA-F]+", tok):
                c_, c0 = int(tok, 16), 1
            elif re.fullmatch(r"[-+]?[0-9]+", tok):
                c_, c0 = int(tok, 10), 0
            else:
                c_, c0 = BAD_N, 0
        else:
            c_, c0 = ABSENT_N, 0
        if n in js and js[n] is not None:
            v = js[n]
            if typ == "float":
                j_ = tab["numf"].get(str(float(v)), BAD_N) if isinstance(v, (int, float)) else BAD_N
            else:
                j_ = v if isinstance(v, int) and abs(v) < 2**31 else BAD_N
        else:
            j_ = ABSENT_N
        out.append([h, h0, c_, c0, j_])
    return out


def apply_by_file(run, kconf, info, vars_, asg):
    """The same assignment arriving through a hand-written sdkconfig file."""
    lines = []
    for v in vars_:
        val = asg[v["n"]]
        if val == ktree.NOVAL:
            continue
        if v["kind"] == "choice":
            lines.append("CONFIG_%s=y" % val)
        elif info[v["n"]]["type"] == "string":
            lines.append("CONFIG_%s=%s" % (v["n"], ktree.q(val)))
        elif info[v["n"]]["type"] == "bool" and val == "n":
            lines.append("# CONFIG_%s is not set" % v["n"])
        else:
            lines.append("CONFIG_%s=%s" % (v["n"], val))
    p = os.path.join(run.scratch, "asg_%d" % os.getpid())
    kc.write_text(p, "\n".join(lines) + "\n")
    kconf.load_config(p, replace=True)
    os.unlink(p)
    inv = getattr(kconf, "_invalidate_all", None)
    if inv is not None:
        inv()


def build_case(run, item, rng, cap, path="set", with_outs=False, tab=None):
    """Observation table of one program on the real implementation."""
    prog, order = item["prog"], item["ord"]
    text = ktree.render(prog)
    info = ktree.sym_info(prog)
    names = ktree.sym_names(prog)
    cids = ktree.choice_ids(prog)
    vars_ = item.get("vars") or ktree.user_candidates(prog, rng, cap)
    kconf = kc.build(text, run.scratch)
    obs, sel = [], []
    n = 0
    outs = []
    for asg in ktree.assignments(vars_):
        if path == "file":
            apply_by_file(run, kconf, info, vars_, asg)
        else:
            apply_assignment(kconf, info, vars_, asg)
        obs.append(observe(kconf, names, info))
        sel.append(observe_sel(kconf, prog, cids))
        if with_outs:
            outs.append(observe_outs(run, kconf, names, info, tab))
        n += 1
        if n % 50 == 0:
            kc.reset_report(kconf)
    kc.reset_report(kconf)
    return {"prog": prog, "ord": order, "vars": vars_, "obs": obs, "sel": sel, "text": text, "has_outs": bool(with_outs), "outs": outs, "path": path}, n


def case_at(case, idx):
    """The configuration with 1-based mixed-radix index idx."""
    for k, asg in enumerate(ktree.assignments(case["vars"]), start=1):
        if k == idx:
            return asg
    return None


def batch_tables(cases_or_items, extra=()):
    strings = set(extra)
    for c in cases_or_items:
        ktree.strings_of(c["prog"], strings)
        ktree.strings_of(c.get("vars", []), strings)
        ktree.strings_of(c.get("obs", []), strings)
    return ktree.tables(strings)


def run_batch(run, cases, tag, invariants=("Report", "HiddenUserInert", "ExactlyOne", "WellTyped"), workers=16, tab=None):
    tab = tab or batch_tables(cases)
    path = run.sub("eval_%s.json" % tag)
    with open(path, "w") as f:
        json.dump({"tab": tab, "progs": [{k: v for k, v in c.items() if k not in ("text", "path")} for c in cases]}, f)
    cfg = run.sub("MC_Eval_%s.cfg" % tag)
    base = open(os.path.join(os.path.dirname(os.path.dirname(os.path.abspath(__file__))), "spec", "MC_Eval.cfg")).read()
    base = "\n".join(ln for ln in base.splitlines() if not ln.startswith("INVARIANT")) + "\n" + "".join("INVARIANT %s\n" % i for i in invariants)
    with open(cfg, "w") as f:
        f.write(base)
    res = run_tlc("MC_Eval", cfg, run, env={"EVAL_DATA": path}, workers=workers, timeout=3000, tag=tag)
    os.unlink(path)
    from .tlc import extract_tuples

    mism = [(v[0], v[1], v[2], v[3]) for v in extract_tuples(res.out, 'M"|S"|O"')]
    return res, mism

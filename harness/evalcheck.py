"""Shared machinery for the stateless evaluation checks (C01, C05, C06):
programs -> real observations for every enumerated configuration -> one TLC
run of spec/MC_Eval.tla that compares them with spec/KEval.tla and checks the
property invariants."""
import json
import os
import re

from . import kc, ktree
from .common import MachineryFailure
from .tlc import require_ok, run_tlc
from .tlaval import parse_value

_SET = re.compile(r"^CONFIG_([A-Za-z0-9_]+)=(.*)$")
_UNSET = re.compile(r"^# CONFIG_([A-Za-z0-9_]+) is not set$")


def unescape(s):
    return re.sub(r"\\(.)", r"\1", s)


def parse_config_line(line, typ):
    """value carried by one sdkconfig line (harness's own reading of the format)."""
    m = _UNSET.match(line)
    if m:
        return m.group(1), "n"
    m = _SET.match(line)
    if not m:
        return None, None
    name, rhs = m.group(1), m.group(2)
    if typ == "string":
        if len(rhs) >= 2 and rhs[0] == '"' and rhs[-1] == '"':
            return name, unescape(rhs[1:-1])
        return name, "<malformed:%s>" % rhs
    return name, rhs


def line_of(sym, typ):
    cs = sym.config_string
    if not cs:
        return "absent", False
    lines = cs.rstrip("\n").split("\n")
    marked = len(lines) > 1 and lines[0].startswith("# default:")
    name, val = parse_config_line(lines[-1], typ)
    if name != sym.name:
        return "<malformed:%s>" % cs, marked
    return val, marked


def asg_text(sym):
    a = sym.assignable
    return "".join({0: "n", 2: "y"}.get(x, "?") for x in a)


def reset_user(kconf):
    """Back to 'no user values', then drop every cached result so that the next
    reads are from-scratch evaluations (cache coherence is C03's subject)."""
    for s in kconf.unique_defined_syms:
        s.unset_value()
    for c in kconf.unique_choices:
        c.unset_value()
    inv = getattr(kconf, "_invalidate_all", None)
    if inv is not None:
        inv()


def apply_assignment(kconf, prog_info, vars_, asg):
    reset_user(kconf)
    for v in vars_:
        val = asg[v["n"]]
        if val == ktree.NOVAL:
            continue
        if v["kind"] == "sym":
            kconf.syms[v["n"]].set_value(val)
        else:
            kconf.syms[val].set_value(2)


def observe(kconf, names, info):
    out = []
    for n in names:
        s = kconf.syms[n]
        typ = info[n]["type"]
        line, _ = line_of(s, typ)
        out.append([s.str_value, s.visibility, asg_text(s), line])
    return out


def observe_sel(kconf, prog, cids):
    """Selected member per choice id (choices are found through their members)."""
    out = []
    for cid in cids:
        mem = ktree.members(prog, cid)
        ch = kconf.syms[mem[0]].choice if mem else None
        sel = ch.selection if ch is not None else None
        out.append(sel.name if sel is not None else ktree.NOVAL)
    return out


def build_case(run, item, rng, cap):
    """Observation table of one program on the real implementation."""
    prog, order = item["prog"], item["ord"]
    text = ktree.render(prog)
    info = ktree.sym_info(prog)
    names = ktree.sym_names(prog)
    cids = ktree.choice_ids(prog)
    vars_ = item.get("vars") or ktree.user_candidates(prog, rng, cap)
    kconf = kc.build(text, run.scratch)
    obs, sel = [], []
    n = 0
    for asg in ktree.assignments(vars_):
        apply_assignment(kconf, info, vars_, asg)
        obs.append(observe(kconf, names, info))
        sel.append(observe_sel(kconf, prog, cids))
        n += 1
    kc.reset_report(kconf)
    return {"prog": prog, "ord": order, "vars": vars_, "obs": obs, "sel": sel, "text": text}, n


def case_at(case, idx):
    """The configuration with 1-based mixed-radix index idx."""
    for k, asg in enumerate(ktree.assignments(case["vars"]), start=1):
        if k == idx:
            return asg
    return None


def run_batch(run, cases, tag, invariants=("Report", "HiddenUserInert", "ExactlyOne", "WellTyped"), workers=16):
    strings = set()
    for c in cases:
        ktree.strings_of(c["prog"], strings)
        ktree.strings_of(c["vars"], strings)
        ktree.strings_of(c["obs"], strings)
    tab = ktree.tables(strings)
    path = run.sub("eval_%s.json" % tag)
    with open(path, "w") as f:
        json.dump({"tab": tab, "progs": [{k: v for k, v in c.items() if k != "text"} for c in cases]}, f)
    cfg = run.sub("MC_Eval_%s.cfg" % tag)
    base = open(os.path.join(os.path.dirname(os.path.dirname(os.path.abspath(__file__))), "spec", "MC_Eval.cfg")).read()
    base = "\n".join(ln for ln in base.splitlines() if not ln.startswith("INVARIANT")) + "\n" + "".join("INVARIANT %s\n" % i for i in invariants)
    with open(cfg, "w") as f:
        f.write(base)
    res = run_tlc("MC_Eval", cfg, run, env={"EVAL_DATA": path}, workers=workers, timeout=3000, tag=tag)
    os.unlink(path)
    mism = []
    for kind, pat in (("M", '<<"M", '), ("S", '<<"S", ')):
        start = 0
        while True:
            j = res.out.find(pat, start)
            if j < 0:
                break
            # bracket matching: 16 workers may interleave lines
            depth, k = 0, j
            while k < len(res.out):
                if res.out.startswith("<<", k):
                    depth += 1
                    k += 2
                    continue
                if res.out.startswith(">>", k):
                    depth -= 1
                    k += 2
                    if depth == 0:
                        break
                    continue
                k += 1
            try:
                v = parse_value(res.out[j:k])
                mism.append((kind, v[1], v[2], v[3]))
            except Exception:
                pass
            start = k
    return res, mism

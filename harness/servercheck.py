"""Driving the real config server in-process and abstracting its messages."""
import io
import json
import os
import sys

from . import evalcheck, kc, ktree


def run_server_lines(kconfig_path, sdkconfig_path, version0, lines, rename=None):
    """Feed request lines to kconfserver.run_server; returns (stdout lines, stderr text, exception or None)."""
    import kconfserver.core as ks

    old = (sys.stdin, sys.stdout, sys.stderr)
    sys.stdin = io.StringIO("".join(ln + "\n" for ln in lines))
    sys.stdout = out = io.StringIO()
    sys.stderr = err = io.StringIO()
    exc = None
    try:
        ks.run_server(kconfig_path, sdkconfig_path, rename, default_version=version0)
    except BaseException as e:  # the server process would have died
        exc = e
    finally:
        sys.stdin, sys.stdout, sys.stderr = old
    return out.getvalue().split("\n")[:-1] if out.getvalue().endswith("\n") else out.getvalue().split("\n"), err.getvalue(), exc


def id_map(kconf, prog):
    """real node id -> abstract id, by walking both trees in order."""
    real = []
    for node in kconf.node_iter():
        item = node.item
        if isinstance(item, kc.core.Symbol):
            real.append(("config", node))
        elif isinstance(item, kc.core.Choice):
            real.append(("choice", node))
        elif item == kc.core.MENU:
            real.append(("menu", node))
        elif item == kc.core.COMMENT:
            real.append(("comment", node))
    abst = [e for e in ktree.walk(prog) if e["k"] != "if"]
    if len(real) != len(abst):
        raise RuntimeError("tree walk mismatch: %d real nodes, %d abstract entries" % (len(real), len(abst)))
    m = {}
    for (k, node), e in zip(real, abst):
        if k != e["k"]:
            raise RuntimeError("tree walk mismatch: %s vs %s" % (k, e["k"]))
        if k == "config":
            m[node.id] = e["name"]
        elif k == "choice":
            m[node.id] = e["id"]
        else:
            m[node.id] = "%s:%s" % (k, e.get("title", k))
    return m


def menu_contents(prog):
    """abstract menu id -> names of the options and choices inside (recursively)."""
    out = {}

    def inside(entries):
        names = []
        for e in entries:
            if e["k"] == "config":
                names.append(e["name"])
            elif e["k"] == "choice":
                names.append(e["id"])
                names += inside(e["children"])
            elif "children" in e:
                names += inside(e["children"])
        return names

    for e in ktree.walk(prog):
        if e["k"] == "menu":
            out["menu:%s" % e.get("title", "menu")] = inside(e["children"])
    return out


def canon_json(typ, v, tab):
    if v is None:
        # a numeric option that nothing provides a value for is sent as null (KOutputs.CanonVal of the empty value)
        return "<nan:>" if typ in ("int", "hex", "float") else "<null>"
    if typ == "bool":
        return "y" if v is True else ("n" if v is False else "<bad:%r>" % (v,))
    if typ in ("int", "hex"):
        return str(v) if isinstance(v, int) and not isinstance(v, bool) else "<bad:%r>" % (v,)
    if typ == "float":
        if isinstance(v, (int, float)) and not isinstance(v, bool):
            return str(tab["numf"].get(str(float(v)), "<nofloat:%r>" % (v,)))
        return "<bad:%r>" % (v,)
    return v if isinstance(v, str) else "<bad:%r>" % (v,)


def abstract_message(msg, info, ids, tab, v1=False):
    """A server message -> the four channels with abstract keys and canonical values."""
    out = {"values": {}, "visible": {}, "ranges": {}, "defaults": {}, "error": bool(msg.get("error")), "version": msg.get("version")}
    for k, v in (msg.get("values") or {}).items():
        t = info.get(k, {}).get("type", "unknown")
        out["values"][k] = canon_json(t, v, tab)
    for k, v in (msg.get("visible") or {}).items():
        out["visible"][ids.get(k, "?" + k)] = bool(v)
    for k, v in (msg.get("ranges") or {}).items():
        t = info.get(k, {}).get("type", "unknown")
        if t == "float":
            out["ranges"][k] = [tab["numf"].get(str(float(x)), -777) for x in v]
        else:
            out["ranges"][k] = list(v)
    for k, v in (msg.get("defaults") or {}).items():
        out["defaults"][k] = bool(v)
    return out


def json_value(jv):
    k, v = jv
    if k == "b":
        return v == "y"
    if k == "i":
        return int(v)
    if k == "f":
        return float(v)
    if k == "s":
        return v
    if k == "null":
        return None
    if k == "list":
        return [1, "a"]
    if k == "obj":
        return {"a": 1}
    raise ValueError(k)


def concrete_request(req, paths, rev_ids):
    r = {"version": req["ver"]}
    if req["load"] >= 0:
        r["load"] = None if req["load"] == 0 else paths[req["load"] - 1]
    if req["set"]:
        r["set"] = {n: json_value(jv) for n, jv in req["set"]}
    if req["reset"]:
        r["reset"] = [rev_ids.get(x, x) for x in req["reset"]]
    if req["save"] >= 0:
        r["save"] = None if req["save"] == 0 else paths[req["save"] - 1]
    return r

"""Seed-independent lattice families: small schemas whose slots are switched on
and off so that every combination of the features a rule mentions is present.
Each item is {"prog", "ord", "vars"} like ktree.generate() (+ explicit vars)."""
import itertools

from .ktree import NOVAL, Y, N, mk_config

S = lambda n: ["s", n]  # noqa: E731
C = lambda v: ["c", v]  # noqa: E731


def gate(name, default="y"):
    return mk_config(name, "bool", prompt=Y, defaults=[{"v": [default], "c": Y}])


LIT = {
    "int": dict(fallback="5", cond="11", setv="10", wsetv="3", lo="1", hi="10", users=[NOVAL, "3", "100", "5", "-1"], src=("3", "100"), bnd=("10", "5")),
    "hex": dict(fallback="0x5", cond="0x21", setv="0xff", wsetv="0x3", lo="0x1", hi="0x20", users=[NOVAL, "0x1F", "1f", "0x5", "0xff"], src=("0x3", "0xff"), bnd=("0x20", "0x10")),
    "float": dict(fallback="5.0", cond="11.5", setv="10.0", wsetv="3.25", lo="1.5", hi="10.0", users=[NOVAL, "3", "100.5", "5", "-0.5", "2.5e16", "1e-7"], src=("3.25", "100.5"), bnd=("10.0", "7")),
    "string": dict(fallback="fb", cond="cd", setv="forced", wsetv="weak", users=[NOVAL, "", "fb", "x", 'q"z', "n", "a\x0cb", "# CONFIG_U1 is not set"], src=("sv", "zz")),
}


def prec_program(typ, prompt, rev, wrev, dep, defaults, rng_kind):
    """One point of F-prec. prompt/rev/wrev in {0: absent, 1: unconditional, 2: if gate}."""
    ents, order, vars_ = [], [], []

    def add(e, cands):
        ents.append(e)
        order.append(["s", e["name"]])
        if cands:
            vars_.append({"n": e["name"], "kind": "sym", "cands": cands})

    need_g = prompt == 2 or rng_kind == 2
    need_g2 = rev == 2 or wrev == 2 or defaults == 1
    if need_g:
        add(gate("G"), [NOVAL, "n"])
    if need_g2:
        add(gate("G2"), [NOVAL, "n"])
    if dep:
        add(gate("D"), [NOVAL, "n"])
    L = LIT.get(typ)
    if typ != "bool" and rng_kind == 3:
        b = mk_config("BND", typ, prompt=Y, defaults=[{"v": C(L["bnd"][0]), "c": Y}])
        add(b, [NOVAL, L["bnd"][1]])
    if typ != "bool" and defaults == 2:
        s_ = mk_config("SRC", typ, prompt=Y, defaults=[{"v": C(L["src"][0]), "c": Y}])
        add(s_, [NOVAL, L["src"][1]])
    if typ == "bool" and defaults == 2:
        add(gate("SRC", "n"), [NOVAL, "y"])
    if defaults == 4:  # a default taken from an option that has no value itself
        add(mk_config("EMP", typ, prompt=None), None)
    cond = lambda k: Y if k == 1 else S("G2")  # noqa: E731
    if rev:
        u1 = gate("U1", "n")
        if typ == "bool":
            u1["selects"].append({"t": "T", "c": cond(rev)})
        else:
            u1["sets"].append({"t": "T", "v": C(L["setv"]), "c": cond(rev), "str": typ == "string"})
        add(u1, [NOVAL, "y"])
    if wrev:
        u2 = gate("U2", "n")
        if typ == "bool":
            u2["implies"].append({"t": "T", "c": cond(wrev)})
        else:
            u2["wsets"].append({"t": "T", "v": C(L["wsetv"]), "c": cond(wrev), "str": typ == "string"})
        add(u2, [NOVAL, "y"])
    t = mk_config("T", typ, prompt=(None if prompt == 0 else (Y if prompt == 1 else S("G"))), dep=(S("D") if dep else Y))
    if typ == "bool":
        if defaults == 1:
            t["defaults"] = [{"v": Y, "c": S("G2")}, {"v": N, "c": Y}]
        elif defaults == 2:
            t["defaults"] = [{"v": S("SRC"), "c": Y}]
        elif defaults == 4:
            t["defaults"] = [{"v": S("EMP"), "c": Y}]
        users = [NOVAL, "n", "y"]
    else:
        if defaults == 1:
            t["defaults"].append({"v": C(L["cond"]), "c": S("G2")})
        elif defaults == 2:
            t["defaults"].append({"v": S("SRC"), "c": Y})
        if defaults == 4:
            t["defaults"].append({"v": S("EMP"), "c": Y})
        elif defaults != 3:  # 3: nothing provides a value
            t["defaults"].append({"v": C(L["fallback"]), "c": Y})
        if typ != "string" and rng_kind:  # int / hex / float
            if rng_kind == 1:
                t["ranges"].append({"lo": C(L["lo"]), "hi": C(L["hi"]), "c": Y})
            elif rng_kind == 2:
                t["ranges"].append({"lo": C(L["lo"]), "hi": C(L["hi"]), "c": S("G")})
            else:
                t["ranges"].append({"lo": C(L["lo"]), "hi": S("BND"), "c": Y})
        users = L["users"]
    add(t, users)
    # an observer that reads T in a condition and as a value
    obs = mk_config("OBS", "bool", prompt=None, defaults=[{"v": Y, "c": (S("T") if typ == "bool" else ["=", S("T"), C(L["fallback"])])}])
    add(obs, None)
    return {"prog": ents, "ord": order, "vars": vars_, "family": "F-prec", "point": dict(type=typ, prompt=prompt, rev=rev, wrev=wrev, dep=dep, defaults=defaults, range=rng_kind)}


def prec_lattice(tier):
    out = []
    for typ in ("bool", "int", "hex", "string", "float"):
        rngs = (0, 1, 2, 3) if typ in ("int", "hex", "float") else (0,)
        for prompt, rev, wrev, dep, defaults, rk in itertools.product((0, 1, 2), (0, 1, 2), (0, 1, 2), (0, 1), (0, 1, 2, 3, 4), rngs):
            out.append(prec_program(typ, prompt, rev, wrev, dep, defaults, rk))
    out += nest_lattice()
    out += choice_lattice()
    out += setsym_lattice()
    out += edge_lattice()
    out += regress_lattice()
    out += multidef_lattice()
    out += forward_lattice(out, tier)
    if tier == "quick":
        # fixed, seed-independent slice
        keep = [p for k, p in enumerate(out) if p["family"] != "F-prec" or k % 11 == 0]  # stride coprime with every factor
        return keep
    return out


# ------------------------------------------------------------------ forward references
def forward_lattice(base, tier):
    """The same programs with their top-level entries in reverse order: options are used (in conditions, as
    set / select targets, as range bounds) before the file defines them.  Evaluation order (`ord`) is unchanged;
    what follows the text - the order of the output, which of two competing `set` sources comes first - follows it."""
    import copy

    picks = []
    for k, it in enumerate(base):
        fam = it["family"]
        if fam == "F-forward":
            continue
        stride = {"F-prec": 41 if tier == "quick" else 5, "F-nest": 5 if tier == "quick" else 1, "F-choice": 29 if tier == "quick" else 3}.get(fam, 2 if tier == "quick" else 1)
        if k % stride == 0:
            picks.append(it)
    out = []
    for it in picks:
        prog = copy.deepcopy(it["prog"])
        if len(prog) < 2:
            continue
        prog.reverse()
        new = dict(it, prog=prog, family="F-forward", point=dict(it.get("point", {}), forward_of=it["family"]))
        out.append(new)
    return out


# ------------------------------------------------------------------ options defined in several places
def multidef_lattice():
    """An option defined twice (inside `if G1` and inside a menu depending on G2): prompts, defaults and ranges of the
    two definitions are merged in definition order, each under its own inherited dependencies; visibility is the
    maximum over the definitions that have a prompt."""
    out = []
    for typ, p1, p2, rng2, sel, menu_first in itertools.product(("bool", "int", "string"), (0, 1), (0, 1, 2), (0, 1), (0, 1), (0, 1)):
        if rng2 and typ != "int":
            continue
        if sel and typ != "bool":
            continue
        if menu_first and (sel or rng2):
            continue
        lit = {"bool": (["y"], ["n"]), "int": (C("3"), C("7")), "string": (C("one"), C("two"))}[typ]
        users = {"bool": [NOVAL, "y", "n"], "int": [NOVAL, "5", "100"], "string": [NOVAL, "x", ""]}[typ]
        ents, order, vars_ = [], [], []
        for g in ("G1", "G2", "P"):
            ents.append(gate(g))
            order.append(["s", g])
            vars_.append({"n": g, "kind": "sym", "cands": [NOVAL, "n"]})
        if sel:
            u = gate("U1", "n")
            u["selects"].append({"t": "T", "c": S("G2")})
            ents.append(u)
            order.append(["s", "U1"])
            vars_.append({"n": "U1", "kind": "sym", "cands": [NOVAL, "y"]})
        d1 = mk_config("T", typ, prompt=(Y if p1 else None), defaults=[{"v": lit[0], "c": Y}])
        d2 = mk_config("T", typ, prompt=(None if p2 == 0 else Y if p2 == 1 else S("P")), defaults=[{"v": lit[1], "c": Y}],
                       ranges=([{"lo": C("1"), "hi": C("10"), "c": Y}] if rng2 else []))
        # another settable option between the two definitions (output order follows the first definition)
        mid = mk_config("MID", "int", prompt=Y, defaults=[{"v": C("1"), "c": Y}])
        if menu_first:
            ents.append({"k": "menu", "title": "first", "dep": S("G1"), "visif": Y, "children": [d1]})
            ents.append(mid)
            ents.append({"k": "if", "c": S("G2"), "children": [d2]})
        else:
            ents.append({"k": "if", "c": S("G1"), "children": [d1]})
            ents.append(mid)
            ents.append({"k": "menu", "title": "second", "dep": S("G2"), "visif": Y, "children": [d2]})
        order.append(["s", "T"])
        order.append(["s", "MID"])
        vars_.append({"n": "MID", "kind": "sym", "cands": [NOVAL, "9"]})
        vars_.append({"n": "T", "kind": "sym", "cands": users})
        obs_c = S("T") if typ == "bool" else ["=", S("T"), lit[1] if typ != "bool" else C("y")]
        ents.append(mk_config("OBS", "bool", prompt=None, defaults=[{"v": Y, "c": obs_c}]))
        order.append(["s", "OBS"])
        out.append({"prog": ents, "ord": order, "vars": vars_, "family": "F-multidef", "point": dict(type=typ, prompt1=p1, prompt2=p2, range2=rng2, select=sel, menu_first=menu_first)})
    return out


# ------------------------------------------------------------------ programs on which a deeper run found a defect
def regress_lattice():
    """Generated programs on which a thorough-tier run exposed a defect of /repo (since repaired): kept in
    every tier so that the defect is reported again if it ever returns."""
    out = []
    # C02, fixed 5af4a42: the default selection of the second choice, evaluated before the first choice's
    # user line is applied, differs from the stored one: the loader took two default-marked member lines for a
    # double assignment
    A, B = lambda x, y: ["&&", x, y], lambda x, y: ["||", x, y]  # noqa: E731
    ents = [
        {"k": "choice", "id": "CH1", "title": "ch1", "prompt": [Y], "dep": Y, "defaults": [],
         "children": [mk_config("B1", "bool", prompt=Y), mk_config("B2", "bool", prompt=Y)]},
        {"k": "choice", "id": "<choice 2>", "title": "ch2", "prompt": [Y], "dep": B(S("B1"), S("B2")),
         "defaults": [{"m": "B4", "c": B(A(S("B2"), ["!", S("B1")]), S("B1"))}, {"m": "B3", "c": Y}],
         "children": [mk_config("B3", "bool", prompt=Y), mk_config("B4", "bool", prompt=A(S("B2"), S("B2")), dep=["!", S("B1")])]},
        mk_config("I5", "int", defaults=[{"v": C("5"), "c": Y}]),
        mk_config("B6", "bool", prompt=B(S("B1"), ["!=", S("I5"), C("0")]), dep=B(A(["=", S("I5"), C("1")], ["!", S("B3")]), S("B3")),
                  defaults=[{"v": Y, "c": Y}, {"v": ["n"], "c": Y}]),
    ]
    order = [["ch", "CH1"], ["s", "B1"], ["s", "B2"], ["ch", "<choice 2>"], ["s", "B3"], ["s", "B4"], ["s", "I5"], ["s", "B6"]]
    vars_ = [{"n": "CH1", "kind": "choice", "cands": [NOVAL, "B1", "B2"]}, {"n": "<choice 2>", "kind": "choice", "cands": [NOVAL, "B3", "B4"]},
             {"n": "B6", "kind": "sym", "cands": [NOVAL, "y", "n"]}]
    out.append({"prog": ents, "ord": order, "vars": vars_, "family": "F-regress", "point": {"found_by": "C02 thorough", "fixed": "5af4a42"}})
    # C08, open finding C08-resolution-order (seed 2 of the generator): B1's own select condition mentions I2, whose
    # value depends on B1 (default condition, set default): with B1's default changed, I2's stored default is compared
    # before B1's has been resolved
    b1 = mk_config("B1", "bool", prompt=Y, defaults=[{"v": Y, "c": Y}])
    b1["selects"].append({"t": "B4", "c": ["<", S("I2"), C("0")]})
    b1["wsets"].append({"t": "I2", "v": C("5"), "c": Y, "str": False})
    ents = [
        b1,
        mk_config("I2", "int", prompt=Y, defaults=[{"v": C("10"), "c": S("B1")}, {"v": C("11"), "c": Y}]),
        mk_config("B3", "bool", prompt=Y, defaults=[{"v": Y, "c": S("B1")}, {"v": Y, "c": Y}]),
        mk_config("B4", "bool", prompt=Y, dep=[">=", S("I2"), C("0")]),
    ]
    order = [["s", "B1"], ["s", "I2"], ["s", "B3"], ["s", "B4"]]
    vars_ = [{"n": "B1", "kind": "sym", "cands": [NOVAL, "n"]}, {"n": "I2", "kind": "sym", "cands": [NOVAL, "3"]}, {"n": "B3", "kind": "sym", "cands": [NOVAL, "y", "n"]}, {"n": "B4", "kind": "sym", "cands": [NOVAL, "y"]}]
    out.append({"prog": ents, "ord": order, "vars": vars_, "family": "F-regress", "point": {"found_by": "C08 quick, seed 2", "open": "C08-resolution-order"}})
    # C02: titles that read like the markers of the sdkconfig format once they are written as '# <title>'
    ents = [
        {"k": "comment", "title": "default:", "dep": Y},
        mk_config("A", "int", prompt=Y, defaults=[{"v": C("1"), "c": Y}]),
        {"k": "menu", "title": "Deprecated options for backward compatibility", "dep": Y, "visif": Y,
         "children": [mk_config("B", "int", prompt=Y, defaults=[{"v": C("2"), "c": Y}])]},
        mk_config("CC", "int", prompt=Y, defaults=[{"v": C("3"), "c": Y}]),
        {"k": "menu", "title": "End of deprecated options", "dep": Y, "visif": Y, "children": [mk_config("DD", "bool", prompt=Y)]},
    ]
    order = [["s", "A"], ["s", "B"], ["s", "CC"], ["s", "DD"]]
    vars_ = [{"n": "A", "kind": "sym", "cands": [NOVAL, "5"]}, {"n": "B", "kind": "sym", "cands": [NOVAL, "6"]}, {"n": "CC", "kind": "sym", "cands": [NOVAL, "7"]}, {"n": "DD", "kind": "sym", "cands": [NOVAL, "y"]}]
    out.append({"prog": ents, "ord": order, "vars": vars_, "family": "F-regress", "point": {"found_by": "sub-agent probing the unmodified code (C02-3)"}})
    return out


# ------------------------------------------------------------------ option-valued set / set default
def setsym_lattice():
    out = []
    for kind, prompt, cond in itertools.product(("sets", "wsets"), (0, 1), (0, 1)):
        ents, order, vars_ = [], [], []

        def add(e, cands):
            ents.append(e)
            order.append(["s", e["name"]])
            if cands:
                vars_.append({"n": e["name"], "kind": "sym", "cands": cands})

        add(gate("G"), [NOVAL, "n"])
        add(mk_config("SRC", "string", prompt=Y, defaults=[{"v": C("sv"), "c": Y}]), [NOVAL, "zz", ""])
        u1 = gate("U1", "n")
        u1[kind].append({"t": "T", "v": S("SRC"), "c": (S("G") if cond else Y), "str": True})
        add(u1, [NOVAL, "y"])
        add(mk_config("T", "string", prompt=(Y if prompt else None), defaults=[{"v": C("fb"), "c": Y}]), [NOVAL, "x"])
        add(mk_config("OBS", "bool", prompt=None, defaults=[{"v": Y, "c": ["=", S("T"), C("zz")]}]), None)
        out.append({"prog": ents, "ord": order, "vars": vars_, "family": "F-setsym", "point": dict(kind=kind, prompt=prompt, cond=cond)})
    return out


# ------------------------------------------------------------------ one program per dependency-edge kind
def edge_lattice():
    """T depends on G through exactly one kind of edge; OBS reads T."""
    out = []

    def prog(edge, ents, vars_, order=None):
        order = order or [["s", e["name"]] for e in ents if e["k"] == "config"]
        out.append({"prog": ents, "ord": order, "vars": vars_, "family": "F-edge", "point": {"edge": edge}})

    gv = {"n": "G", "kind": "sym", "cands": [NOVAL, "n"]}
    uv = {"n": "U", "kind": "sym", "cands": [NOVAL, "y"]}
    obs_b = lambda: mk_config("OBS", "bool", defaults=[{"v": Y, "c": S("T")}])  # noqa: E731
    obs_i = lambda lit: mk_config("OBS", "bool", defaults=[{"v": Y, "c": ["=", S("T"), C(lit)]}])  # noqa: E731
    tb = {"n": "T", "kind": "sym", "cands": [NOVAL, "y", "n"]}
    ti = {"n": "T", "kind": "sym", "cands": [NOVAL, "3", "7"]}
    # bool targets
    prog("prompt-cond", [gate("G"), mk_config("T", "bool", prompt=S("G"), defaults=[{"v": N, "c": Y}]), obs_b()], [gv, tb])
    prog("default-cond", [gate("G"), mk_config("T", "int", prompt=None, defaults=[{"v": C("1"), "c": S("G")}, {"v": C("2"), "c": Y}]), obs_i("1")], [gv])
    prog("default-value-bool", [gate("G"), mk_config("T", "bool", prompt=None, defaults=[{"v": S("G"), "c": Y}]), obs_b()], [gv])
    g_int = mk_config("G", "int", prompt=Y, defaults=[{"v": C("5"), "c": Y}])
    giv = {"n": "G", "kind": "sym", "cands": [NOVAL, "3", "10"]}
    prog("default-value-sym", [g_int, mk_config("T", "int", prompt=None, defaults=[{"v": S("G"), "c": Y}]), obs_i("3")], [giv])
    g = gate("G", "n")
    g["selects"].append({"t": "T", "c": Y})
    prog("select-source", [g, mk_config("T", "bool", prompt=Y), obs_b()], [{"n": "G", "kind": "sym", "cands": [NOVAL, "y"]}, tb])
    u = gate("U", "n")
    u["selects"].append({"t": "T", "c": S("G")})
    prog("select-cond", [gate("G"), u, mk_config("T", "bool", prompt=Y), obs_b()], [gv, uv, tb])
    g = gate("G", "n")
    g["implies"].append({"t": "T", "c": Y})
    prog("imply-source", [g, mk_config("T", "bool", prompt=Y), obs_b()], [{"n": "G", "kind": "sym", "cands": [NOVAL, "y"]}, tb])
    u = gate("U", "n")
    u["implies"].append({"t": "T", "c": S("G")})
    prog("imply-cond", [gate("G"), u, mk_config("T", "bool", prompt=None), obs_b()], [gv, uv])
    u = gate("U", "n")
    u["implies"].append({"t": "T", "c": Y})
    prog("direct-dep-only", [gate("G"), u, mk_config("T", "bool", prompt=None, dep=S("G")), obs_b()], [gv, uv])
    # `set default` also reads the target's own dependencies: a promptless target without default / range has no other edge from G
    for typ, lit in (("int", "3"), ("hex", "0x1F"), ("string", "sv"), ("float", "3.25")):
        u = gate("U", "n")
        u["wsets"].append({"t": "T", "v": C(lit), "c": Y, "str": typ == "string"})
        o = mk_config("OBS", "bool", defaults=[{"v": Y, "c": ["=", S("T"), C(lit)]}])
        if typ == "float":
            o = mk_config("OBS", "float", defaults=[{"v": S("T"), "c": Y}])
        prog("direct-dep-only-wset-" + typ, [gate("G"), u, mk_config("T", typ, prompt=None, dep=S("G")), o], [gv, uv])
    prog("depends-on-prompt", [gate("G"), mk_config("T", "bool", prompt=Y, dep=S("G"), defaults=[{"v": Y, "c": Y}]), obs_b()], [gv, tb])
    # numeric targets
    prog("range-lo", [g_int, mk_config("T", "int", prompt=Y, ranges=[{"lo": S("G"), "hi": C("100"), "c": Y}], defaults=[{"v": C("1"), "c": Y}]), obs_i("3")], [giv, ti])
    prog("range-hi", [g_int, mk_config("T", "int", prompt=Y, ranges=[{"lo": C("0"), "hi": S("G"), "c": Y}], defaults=[{"v": C("11"), "c": Y}]), obs_i("3")], [giv, ti])
    prog("range-cond", [gate("G"), mk_config("T", "int", prompt=Y, ranges=[{"lo": C("1"), "hi": C("5"), "c": S("G")}], defaults=[{"v": C("11"), "c": Y}]), obs_i("5")], [gv, ti])
    for kind in ("sets", "wsets"):
        g = gate("G", "n")
        g[kind].append({"t": "T", "v": C("3"), "c": Y, "str": False})
        prog(kind + "-source", [g, mk_config("T", "int", prompt=Y, defaults=[{"v": C("1"), "c": Y}]), obs_i("3")], [{"n": "G", "kind": "sym", "cands": [NOVAL, "y"]}, ti])
        u = gate("U", "n")
        u[kind].append({"t": "T", "v": C("3"), "c": S("G"), "str": False})
        prog(kind + "-cond", [gate("G"), u, mk_config("T", "int", prompt=Y, defaults=[{"v": C("1"), "c": Y}]), obs_i("3")], [gv, uv, ti])
        u = gate("U", "n")
        u[kind].append({"t": "T", "v": S("G"), "c": Y, "str": True})
        g_str = mk_config("G", "string", prompt=Y, defaults=[{"v": C("sv"), "c": Y}])
        prog(kind + "-value-sym", [g_str, u, mk_config("T", "string", prompt=Y, defaults=[{"v": C("fb"), "c": Y}]), mk_config("OBS", "bool", defaults=[{"v": Y, "c": ["=", S("T"), C("zz")]}])], [{"n": "G", "kind": "sym", "cands": [NOVAL, "zz"]}, uv, {"n": "T", "kind": "sym", "cands": [NOVAL, "x"]}])
    # containers
    t = mk_config("T", "bool", prompt=Y, defaults=[{"v": Y, "c": Y}])
    prog("menu-dep", [gate("G"), {"k": "menu", "title": "m", "dep": S("G"), "visif": Y, "children": [t]}, obs_b()], [gv, tb], [["s", "G"], ["s", "T"], ["s", "OBS"]])
    t = mk_config("T", "bool", prompt=Y, defaults=[{"v": Y, "c": Y}])
    prog("menu-visible-if", [gate("G"), {"k": "menu", "title": "m", "dep": Y, "visif": S("G"), "children": [t]}, obs_b()], [gv, tb], [["s", "G"], ["s", "T"], ["s", "OBS"]])
    t = mk_config("T", "bool", prompt=Y, defaults=[{"v": Y, "c": Y}])
    prog("if", [gate("G"), {"k": "if", "c": S("G"), "children": [t]}, obs_b()], [gv, tb], [["s", "G"], ["s", "T"], ["s", "OBS"]])
    # choices
    for edge in ("member-prompt", "choice-prompt", "choice-default", "choice-dep"):
        m1 = mk_config("M1", "bool", prompt=(S("G") if edge == "member-prompt" else Y))
        m2 = mk_config("T", "bool", prompt=Y)
        ch = {
            "k": "choice",
            "id": "<choice 1>",
            "title": "ch",
            "prompt": [S("G") if edge == "choice-prompt" else Y],
            "dep": S("G") if edge == "choice-dep" else Y,
            "defaults": [{"m": "T", "c": S("G")}] if edge == "choice-default" else [],
            "children": [m1, m2],
        }
        prog(edge, [gate("G"), ch, obs_b()], [gv, {"n": "<choice 1>", "kind": "choice", "cands": [NOVAL, "M1", "T"]}], [["s", "G"], ["ch", "<choice 1>"], ["s", "M1"], ["s", "T"], ["s", "OBS"]])
    return out


# ------------------------------------------------------------------ C06: numbers in every format
WIDE_USERS = {
    "int": [NOVAL, "3", "100", "-1", "007", "010", "2000000000", "1_0", " 7", "+3", "0x5", "abc", ""],
    "hex": [NOVAL, "0x1F", "0X1f", "1f", "0xff", "-0x1", "zz", " 1f", "+1f", "0x", "010"],
    "float": [NOVAL, "3", "5.0", "1e3", "-0.5", ".5", "nan", "inf", "1,5", "100.5", "1_0", " 7", "2.5e16", "1e-7", "1e400"],
}


def numeric_lattice(tier):
    out = []
    for typ in ("int", "hex", "float"):
        for prompt, rev, wrev, defaults, rk in itertools.product((1, 2), (0, 1), (0, 1), (0, 1, 2, 3, 4), (0, 1, 2, 3)):
            it = prec_program(typ, prompt, rev, wrev, 0, defaults, rk)
            for v in it["vars"]:
                if v["n"] == "T":
                    v["cands"] = list(WIDE_USERS[typ])
                elif v["n"] in ("SRC", "BND"):
                    v["cands"] = v["cands"][:2]
            it["family"] = "F-num"
            out.append(it)
    if tier == "quick":
        return [p for k, p in enumerate(out) if k % 5 == 0]  # stride coprime with every factor of the lattice
    return out


# ------------------------------------------------------------------ F-nest
def nest_lattice():
    """What an enclosing menu / if contributes: T and a source U sit inside a
    chain of containers; T2/T3 (targets of U's select / set) sit outside."""
    out = []
    kinds = ["menu_dep", "menu_vis", "menu_both", "if"]
    chains = [()] + [(a,) for a in kinds] + list(itertools.product(kinds, kinds))
    for chain in chains:
        for typ in ("bool", "int", "intclamp"):
            ents, order, vars_ = [], [], []
            gates = []
            for lvl, k in enumerate(chain):
                if k in ("menu_dep", "menu_both", "if"):
                    gates.append("GD%d" % lvl)
                if k in ("menu_vis", "menu_both"):
                    gates.append("GV%d" % lvl)
            for g in gates:
                ents.append(gate(g))
                order.append(["s", g])
                vars_.append({"n": g, "kind": "sym", "cands": [NOVAL, "n"]})
            if typ == "bool":
                t = mk_config("T", "bool", prompt=Y, defaults=[{"v": Y, "c": Y}])
                tc = [NOVAL, "n", "y"]
            elif typ == "int":
                t = mk_config("T", "int", prompt=Y, defaults=[{"v": C("5"), "c": Y}], ranges=[{"lo": C("1"), "hi": C("10"), "c": Y}])
                tc = [NOVAL, "3", "100"]
            else:  # a default outside the range: clamped wherever the option sits, shown or not
                t = mk_config("T", "int", prompt=Y, defaults=[{"v": C("100"), "c": Y}], ranges=[{"lo": C("1"), "hi": C("10"), "c": Y}])
                tc = [NOVAL, "3"]
            u = gate("U", "n")
            u["selects"].append({"t": "T2", "c": Y})
            u["sets"].append({"t": "T3", "v": C("7"), "c": Y, "str": False})
            inner = [t, u]
            node = inner
            for lvl in reversed(range(len(chain))):
                k = chain[lvl]
                if k == "if":
                    node = [{"k": "if", "c": S("GD%d" % lvl), "children": node}]
                else:
                    node = [
                        {
                            "k": "menu",
                            "title": "m%d" % lvl,
                            "dep": S("GD%d" % lvl) if k in ("menu_dep", "menu_both") else Y,
                            "visif": S("GV%d" % lvl) if k in ("menu_vis", "menu_both") else Y,
                            "children": node,
                        }
                    ]
            ents += node
            order += [["s", "T"], ["s", "U"]]
            vars_.append({"n": "T", "kind": "sym", "cands": tc})
            vars_.append({"n": "U", "kind": "sym", "cands": [NOVAL, "y"]})
            t2 = mk_config("T2", "bool", prompt=Y)
            t3 = mk_config("T3", "int", prompt=Y, defaults=[{"v": C("1"), "c": Y}])
            ents += [t2, t3]
            order += [["s", "T2"], ["s", "T3"]]
            vars_.append({"n": "T2", "kind": "sym", "cands": [NOVAL, "n"]})
            vars_.append({"n": "T3", "kind": "sym", "cands": [NOVAL, "2"]})
            out.append({"prog": ents, "ord": order, "vars": vars_, "family": "F-nest", "point": dict(chain=list(chain), type=typ)})
    out += implicit_lattice()
    return out


def implicit_lattice():
    """An option A directly followed by a block that depends on it (`if A`, a menu with `depends on A`, an option with
    `depends on A`): the tool files the block under A in the menu tree.  What the enclosing menus contribute
    (`visible if`, dependencies) must reach the options inside the block all the same."""
    out = []
    for outer, inner, typ in itertools.product(("vis", "vis_in_plain", "plain_in_vis", "dep"), ("if", "ifand", "menu", "dep", "if_in_if"), ("bool", "int")):
        ents, order, vars_ = [], [], []
        for g in ("GV", "GD"):
            ents.append(gate(g))
            order.append(["s", g])
            vars_.append({"n": g, "kind": "sym", "cands": [NOVAL, "n"]})
        a = gate("A")
        if typ == "bool":
            t = mk_config("T", "bool", prompt=Y, defaults=[{"v": N, "c": Y}])
            tc = [NOVAL, "y"]
        else:
            t = mk_config("T", "int", prompt=Y, defaults=[{"v": C("3"), "c": Y}], ranges=[{"lo": C("0"), "hi": C("100"), "c": Y}])
            tc = [NOVAL, "7"]
        if inner == "if":
            blk = [{"k": "if", "c": S("A"), "children": [t]}]
        elif inner == "ifand":
            blk = [{"k": "if", "c": ["&&", S("A"), S("GD")], "children": [t]}]
        elif inner == "menu":
            blk = [{"k": "menu", "title": "under A", "dep": S("A"), "visif": Y, "children": [t]}]
        elif inner == "if_in_if":
            blk = [{"k": "if", "c": S("A"), "children": [{"k": "if", "c": S("GD"), "children": [t]}]}]
        else:
            t["dep"] = S("A")
            blk = [t]
        tail = mk_config("C", "bool", prompt=Y)
        body = [a] + blk + [tail]
        if outer == "vis":
            node = [{"k": "menu", "title": "m", "dep": Y, "visif": S("GV"), "children": body}]
        elif outer == "vis_in_plain":
            node = [{"k": "menu", "title": "outer", "dep": Y, "visif": Y, "children": [{"k": "menu", "title": "m", "dep": Y, "visif": S("GV"), "children": body}]}]
        elif outer == "plain_in_vis":
            node = [{"k": "menu", "title": "outer", "dep": Y, "visif": S("GV"), "children": [{"k": "menu", "title": "m", "dep": Y, "visif": Y, "children": body}]}]
        else:
            node = [{"k": "menu", "title": "m", "dep": S("GV"), "visif": Y, "children": body}]
        ents += node
        order += [["s", "A"], ["s", "T"], ["s", "C"]]
        vars_.append({"n": "A", "kind": "sym", "cands": [NOVAL, "n"]})
        vars_.append({"n": "T", "kind": "sym", "cands": tc})
        vars_.append({"n": "C", "kind": "sym", "cands": [NOVAL, "y"]})
        out.append({"prog": ents, "ord": order, "vars": vars_, "family": "F-nest", "point": dict(implicit=inner, outer=outer, type=typ)})
    return out


# ------------------------------------------------------------------ F-choice
def choice_lattice():
    out = []
    member_pats = [(0, 0, 0), (1, 0, 0), (0, 1, 0), (1, 1, 0), (1, 1, 1), (0, 0, 1)]
    for pat, dflt, cprompt, dep, named, nested in itertools.product(member_pats, (0, 1, 2, 3), (0, 1), (0, 1), (0, 1), (0, 1)):
        if nested and named:
            continue
        ents, order, vars_ = [], [], []
        for g in ("G", "G2", "G3", "D"):
            ents.append(gate(g))
            order.append(["s", g])
            vars_.append({"n": g, "kind": "sym", "cands": [NOVAL, "n"]})
        cid = "CH" if named else "<choice 1>"
        mem = []
        for k, p in enumerate(pat):
            m = mk_config("M%d" % (k + 1), "bool", prompt=(S("G") if p else Y))
            mem.append(m)
        ch = {
            "k": "choice",
            "id": cid,
            "title": "ch",
            "prompt": [S("G3") if cprompt else Y],
            "dep": S("D") if dep else Y,
            "defaults": [],
            "children": mem,
        }
        if dflt == 1:
            ch["defaults"] = [{"m": "M2", "c": Y}]
        elif dflt == 2:
            ch["defaults"] = [{"m": "M3", "c": S("G2")}, {"m": "M2", "c": Y}]
        elif dflt == 3:
            ch["defaults"] = [{"m": "M1", "c": S("G2")}, {"m": "M3", "c": Y}]
        order.append(["ch", cid])
        order += [["s", m["name"]] for m in mem]
        ents.append({"k": "if", "c": S("G2"), "children": [ch]} if nested else ch)
        vars_.append({"n": cid, "kind": "choice", "cands": [NOVAL, "M1", "M2", "M3"]})
        if dflt in (0, 2) and not nested:
            # a user value n on one member itself (it never moves the selection; the member stays what the choice makes it)
            vars_.append({"n": "M1" if dflt == 0 else "M3", "kind": "sym", "cands": [NOVAL, "n"]})
        obs = mk_config("OBS", "int", prompt=None, defaults=[{"v": C("1"), "c": S("M1")}, {"v": C("2"), "c": S("M2")}, {"v": C("3"), "c": S("M3")}, {"v": C("0"), "c": Y}])
        ents.append(obs)
        order.append(["s", "OBS"])
        # the same observer with a prompt: it is written with the default marker, so loading a tool-written file
        # has a default-marked entry to resolve whose Kconfig default depends on the selection
        obsv = mk_config("OBSV", "int", prompt=Y, defaults=[{"v": C("1"), "c": S("M1")}, {"v": C("2"), "c": S("M2")}, {"v": C("3"), "c": S("M3")}, {"v": C("0"), "c": Y}])
        ents.append(obsv)
        order.append(["s", "OBSV"])
        out.append({"prog": ents, "ord": order, "vars": vars_, "family": "F-choice", "point": dict(members=list(pat), defaults=dflt, cprompt=cprompt, dep=dep, named=named, nested=nested)})
    # a named choice defined in two places: the second definition adds a member and a default (conditions of the
    # second definition carry its own dependencies; members of both definitions form one choice)
    for pat, dflt, dep2 in itertools.product(member_pats[:4], (0, 1, 2), (0, 1)):
        ents, order, vars_ = [], [], []
        for g in ("G", "G2", "D"):
            ents.append(gate(g))
            order.append(["s", g])
            vars_.append({"n": g, "kind": "sym", "cands": [NOVAL, "n"]})
        mem = [mk_config("M%d" % (k + 1), "bool", prompt=(S("G") if p else Y)) for k, p in enumerate(pat)]
        ch1 = {"k": "choice", "id": "CH", "title": "ch", "prompt": [Y], "dep": Y, "defaults": [], "children": mem}
        if dflt == 1:
            ch1["defaults"] = [{"m": "M2", "c": Y}]
        ch2 = {"k": "choice", "id": "CH", "title": "ch", "prompt": [], "dep": (S("D") if dep2 else Y),
               "defaults": ([{"m": "M4", "c": S("G2")}] if dflt == 2 else []), "children": [mk_config("M4", "bool", prompt=Y)]}
        ents += [ch1, ch2]
        order.append(["ch", "CH"])
        order += [["s", "M%d" % k] for k in (1, 2, 3, 4)]
        vars_.append({"n": "CH", "kind": "choice", "cands": [NOVAL, "M1", "M2", "M4"]})
        ents.append(mk_config("OBS", "int", prompt=None, defaults=[{"v": C("1"), "c": S("M1")}, {"v": C("4"), "c": S("M4")}, {"v": C("0"), "c": Y}]))
        order.append(["s", "OBS"])
        out.append({"prog": ents, "ord": order, "vars": vars_, "family": "F-choice", "point": dict(members=list(pat), defaults=dflt, twice=True, dep2=dep2)})
    # ... and a second definition without any member that only brings a default ("a component overrides the default
    # selection"), before or after the definition with the members
    for pat, dflt, dep2, first in itertools.product(member_pats[:4], (0, 1), (0, 1), (0, 1)):
        ents, order, vars_ = [], [], []
        for g in ("G", "G2", "D"):
            ents.append(gate(g))
            order.append(["s", g])
            vars_.append({"n": g, "kind": "sym", "cands": [NOVAL, "n"]})
        mem = [mk_config("M%d" % (k + 1), "bool", prompt=(S("G") if p else Y)) for k, p in enumerate(pat)]
        ch1 = {"k": "choice", "id": "CH", "title": "ch", "prompt": [Y], "dep": Y, "defaults": ([{"m": "M2", "c": S("G")}] if dflt else []), "children": mem}
        ch2 = {"k": "choice", "id": "CH", "title": "ch", "prompt": [], "dep": (S("D") if dep2 else Y), "defaults": [{"m": "M3", "c": S("G2")}], "children": []}
        ents += [ch2, ch1] if first else [ch1, ch2]
        order.append(["ch", "CH"])
        order += [["s", "M%d" % k] for k in (1, 2, 3)]
        vars_.append({"n": "CH", "kind": "choice", "cands": [NOVAL, "M1", "M2"]})
        ents.append(mk_config("OBS", "int", prompt=None, defaults=[{"v": C("1"), "c": S("M1")}, {"v": C("3"), "c": S("M3")}, {"v": C("0"), "c": Y}]))
        order.append(["s", "OBS"])
        out.append({"prog": ents, "ord": order, "vars": vars_, "family": "F-choice", "point": dict(members=list(pat), defaults=dflt, twice="memberless", dep2=dep2, first=first)})
    # a default that names an option outside the choice (a typo or a rename away from a proper one): it selects
    # nothing, the next default / the first visible member decides
    for second, gated in itertools.product((0, 1), (0, 1)):
        ents, order, vars_ = [], [], []
        for g in ("G", "OUTSIDE"):
            ents.append(gate(g))
            order.append(["s", g])
            vars_.append({"n": g, "kind": "sym", "cands": [NOVAL, "n"]})
        mem = [mk_config("M1", "bool", prompt=(S("G") if gated else Y)), mk_config("M2", "bool", prompt=Y), mk_config("M3", "bool", prompt=Y)]
        ch = {"k": "choice", "id": "CH", "title": "ch", "prompt": [Y], "dep": Y, "defaults": [{"m": "OUTSIDE", "c": Y}] + ([{"m": "M3", "c": S("G")}] if second else []), "children": mem}
        ents.append(ch)
        order.append(["ch", "CH"])
        order += [["s", "M1"], ["s", "M2"], ["s", "M3"]]
        vars_.append({"n": "CH", "kind": "choice", "cands": [NOVAL, "M2"]})
        ents.append(mk_config("OBS", "int", prompt=None, defaults=[{"v": C("1"), "c": S("M1")}, {"v": C("3"), "c": S("M3")}, {"v": C("0"), "c": Y}]))
        order.append(["s", "OBS"])
        out.append({"prog": ents, "ord": order, "vars": vars_, "family": "F-choice", "point": dict(outside_default=True, second=second, gated=gated)})
    out += twochoice_lattice()
    return out


def twochoice_lattice():
    """Two choices, one depending on a member of the other (directly or through an option without a prompt), in
    either order of definition: loading, resolving and writing must not depend on which of them the file names first."""
    out = []
    for fwd, via, dflt, gated in itertools.product((0, 1), (0, 1, 2), (0, 1), (0, 1)):
        ents, order, vars_ = [], [], []
        ents.append(gate("G"))
        order.append(["s", "G"])
        vars_.append({"n": "G", "kind": "sym", "cands": [NOVAL, "n"]})
        bm = [mk_config("B1", "bool", prompt=Y), mk_config("B2", "bool", prompt=(S("G") if gated else Y))]
        chb = {"k": "choice", "id": "CHB", "title": "b", "prompt": [Y], "dep": Y, "defaults": [], "children": bm}
        hb = mk_config("HB", "bool", prompt=None, defaults=[{"v": Y, "c": S("B2")}])
        dep = {0: S("B2"), 1: S("HB"), 2: ["!", S("B1")]}[via]
        am = [mk_config("A1", "bool", prompt=Y), mk_config("A2", "bool", prompt=Y)]
        cha = {"k": "choice", "id": "CHA", "title": "a", "prompt": [Y], "dep": dep, "defaults": ([{"m": "A2", "c": Y}] if dflt else []), "children": am}
        obs = mk_config("OBSV", "int", prompt=Y, defaults=[{"v": C("1"), "c": S("A1")}, {"v": C("2"), "c": S("A2")}, {"v": C("0"), "c": Y}])
        ents += [cha, hb, chb, obs] if fwd else [chb, hb, cha, obs]
        order += [["ch", "CHB"], ["s", "B1"], ["s", "B2"], ["s", "HB"], ["ch", "CHA"], ["s", "A1"], ["s", "A2"], ["s", "OBSV"]]
        vars_.append({"n": "CHB", "kind": "choice", "cands": [NOVAL, "B2"]})
        vars_.append({"n": "CHA", "kind": "choice", "cands": [NOVAL, "A1", "A2"]})
        out.append({"prog": ents, "ord": order, "vars": vars_, "family": "F-choice", "point": dict(two=True, forward=fwd, via=via, defaults=dflt, gated=gated)})
    return out


# ------------------------------------------------------------------ finding tags
def tags_for(case, asg, detail, kind):
    """Mechanism tags of a mismatch, for the known-finding matchers."""
    tags = set()
    return tags

-------------------------------- MODULE KDeps --------------------------------
(***************************************************************************)
(* Which option reads which: the dependency graph of a Kconfig program and *)
(* its cycles (C09).  There is an edge a -> b when the value or visibility *)
(* of b reads a: through b's prompt / default / range conditions and       *)
(* values, inherited `depends on`, select / imply (source and condition),  *)
(* set / set default (source, condition and, for string targets, an        *)
(* option-valued value), and choice membership (see Nodes below).          *)
(***************************************************************************)
EXTENDS Naturals, Integers, Sequences, FiniteSets, SequencesExt, TLC

CONSTANTS Num10, Num16, NumC, DecStr, HexStr, StrRank, NumF, NormF, FCanon, HexPfx
INSTANCE KEval

RECURSIVE Refs(_)
Refs(e) ==   \* names (options and choices) an expression or atom mentions
  LET op == e[1] IN
  CASE op \in {"y", "n", "c"} -> {}
    [] op = "s"  -> {e[2]}
    [] op = "ch" -> {e[2]}
    [] op = "!"  -> Refs(e[2])
    [] OTHER     -> Refs(e[2]) \cup Refs(e[3])

SeqRefs(seq, fields) == UNION {UNION {Refs(seq[i][f]) : f \in fields} : i \in 1..Len(seq)}
ExprsRefs(seq) == UNION {Refs(seq[i]) : i \in 1..Len(seq)}

(* Nodes.  A non-member option is one node (its name).  A choice c has two: *)
(* its mode (c) and its selection ("sel:" \o c).  A member m has two: its   *)
(* visibility ("vis:" \o m) and its value (m): the value of every member   *)
(* reads the selection, which reads the visibility of every member.        *)
VisN(m) == "vis:" \o m
SelN(c) == "sel:" \o c

\* edges into one flattened definition
InEdges(D, d) ==
  IF d.kind = "choice"
    \* (the `depends on` of a choice definition reaches its prompt and its defaults, where Flatten has put it; a
    \* definition that has neither reads nothing through it: members inherit the choice, not the definition's dep)
    THEN {<<a, d.name>> : a \in ExprsRefs(d.prompts)}
         \cup {<<a, SelN(d.name)>> : a \in SeqRefs(d.defaults, {"c"}) \cup {d.name}}
  ELSE IF d.ch # ""
    THEN {<<a, VisN(d.name)>> : a \in ExprsRefs(d.prompts) \cup Refs(d.dep)}
         \cup {<<VisN(d.name), SelN(d.ch)>>, <<SelN(d.ch), d.name>>}
  ELSE
    LET own == ExprsRefs(d.prompts) \cup SeqRefs(d.defaults, {"v", "c"})
               \cup SeqRefs(d.ranges, {"lo", "hi", "c"}) \cup Refs(d.dep)
    IN {<<a, d.name>> : a \in own}

\* edges out of the reverse properties of one definition (the source)
RevEdges(D, d) ==
  IF d.kind # "sym" THEN {}
  ELSE LET one(seq, withValue) ==
             UNION {{<<a, seq[i].t>> : a \in {d.name} \cup Refs(seq[i].c)
                                          \cup (IF withValue /\ TypeOf(D, seq[i].t) = "string" THEN Refs(seq[i].v) ELSE {})}
                    : i \in 1..Len(seq)}
       IN one(d.selects, FALSE) \cup one(d.implies, FALSE) \cup one(d.sets, TRUE) \cup one(d.wsets, TRUE)

Edges(D) ==
  LET names == {D[i].name : i \in 1..Len(D)}
      defined == names \cup {VisN(n) : n \in names} \cup {SelN(n) : n \in names}
      all == UNION {InEdges(D, D[i]) \cup RevEdges(D, D[i]) : i \in 1..Len(D)}
  IN {e \in all : e[1] \in defined /\ e[2] \in defined}

Nodes(D) == LET E == Edges(D) IN {e[1] : e \in E} \cup {e[2] : e \in E}

RECURSIVE ReachFrom(_, _, _)
ReachFrom(E, frontier, seen) ==
  LET nxt == {e[2] : e \in {f \in E : f[1] \in frontier}} \ seen
  IN IF nxt = {} THEN seen ELSE ReachFrom(E, nxt, seen \cup nxt)

\* nodes that lie on a cycle
OnCycle(D) ==
  LET E == Edges(D) IN {n \in Nodes(D) : n \in ReachFrom(E, {n}, {})}

HasLoop(D) == OnCycle(D) # {}
=============================================================================

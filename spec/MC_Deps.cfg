SPECIFICATION Spec
INVARIANT Report

SPECIFICATION Spec

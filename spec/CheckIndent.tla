----------------------------- MODULE CheckIndent -----------------------------
(***************************************************************************)
(* kconfcheck on a Kconfig file (C18): the per-line checker chain          *)
(* IndentAndNameChecker -> LineRuleChecker as a transducer over abstract   *)
(* lines, and what one `--replace` pass writes.                            *)
(*                                                                         *)
(* A line is a record                                                      *)
(*   k     kind: "mainmenu" "menu" "endmenu" "choice" "endchoice" "if"     *)
(*         "endif" "config" "menuconfig" "comment" "source" "help" "prop"  *)
(*         (any option line) "text" (help text) "blank" "hash"             *)
(*   kw    for "text": the keyword the line would be taken for if it were  *)
(*         not recognised as help text ("" if it starts with none)         *)
(*   ind   number of leading white-space characters                        *)
(*   tabs  number of tab characters in the line                            *)
(*   trail TRUE iff white space precedes the newline                       *)
(*   cont  TRUE iff the line ends with a backslash                         *)
(* (names are well-formed in the generated files; name rules are not part) *)
(***************************************************************************)
EXTENDS Naturals, Integers, Sequences, FiniteSets, SequencesExt, TLC

Unit == 4
IncKinds == {"mainmenu", "menu", "choice", "config", "menuconfig", "comment", "help", "if", "source"}
DecKinds == {"endmenu", "endchoice", "endif"}
Parents  == {"menu", "mainmenu", "choice", "if"}
PairOf(k) == IF k = "endmenu" THEN "menu" ELSE IF k = "endchoice" THEN "choice" ELSE "if"

\* the kind the indentation checker acts on
Seen(ln) == IF ln.k = "text" THEN (IF ln.kw = "" THEN "prop" ELSE ln.kw) ELSE ln.k

LastIdx(stack, S) ==   \* position of the last element of the stack that is in S, 0 if none
  LET idx == {i \in 1..Len(stack) : stack[i] \in S} IN IF idx = {} THEN 0 ELSE CHOOSE i \in idx : \A j \in idx : j <= i

PushLevel(stack, k) ==   \* update_level_for_inc_pattern -> <<stack', level of this line>>
  LET base == IF k \in {"help", "mainmenu"} THEN stack
              ELSE LET p == LastIdx(stack, Parents) IN SubSeq(stack, 1, p)
      st2 == Append(base, k)
  IN <<st2, Len(st2) - 1>>
PopLevel(stack, k) ==    \* update_level_for_dec_pattern
  LET p == LastIdx(stack, {PairOf(k)})
      st2 == IF p = 0 THEN stack ELSE SubSeq(stack, 1, p - 1)
  IN <<st2, Len(st2)>>

\* one line through the chain: [st (checker state), out (the line written), err (BOOLEAN)]
\* st = [stack, force]
FixTabsTrail(ln) == IF ln.k = "blank" THEN [ln EXCEPT !.ind = 0, !.tabs = 0, !.ltabs = 0, !.trail = FALSE]   \* white space only: emptied
                    ELSE [ln EXCEPT !.ind = @ + (Unit - 1) * ln.ltabs, !.tabs = 0, !.ltabs = 0, !.trail = FALSE]
LineRule(ln) == IF ln.tabs > 0 \/ ln.trail THEN [out |-> FixTabsTrail(ln), err |-> TRUE] ELSE [out |-> ln, err |-> FALSE]
Reindent(ln, n) == [ln EXCEPT !.ind = n, !.tabs = @ - ln.ltabs, !.ltabs = 0]   \* lstrip + spaces

Step(st, ln) ==
  LET pass(st2) == LET r == LineRule(ln) IN [st |-> st2, out |-> r.out, err |-> r.err] IN
  IF ln.k = "blank" THEN pass([st EXCEPT !.force = 0])
  ELSE IF ln.k = "hash" THEN pass(st)
  ELSE
    LET lvl == Len(st.stack) IN
    IF lvl > 0 /\ st.stack[lvl] = "help" /\ ln.ind >= lvl * Unit THEN pass([st EXCEPT !.force = 0])
    ELSE IF st.force > 0 THEN
      (IF ln.ind # st.force THEN [st |-> st, out |-> Reindent(ln, st.force), err |-> TRUE]
       ELSE pass(IF ln.cont THEN st ELSE [st EXCEPT !.force = 0]))
    ELSE IF ln.cont /\ Seen(ln) \in {"config", "menuconfig", "choice"} THEN [st |-> st, out |-> ln, err |-> TRUE]
    ELSE
      LET k == Seen(ln)
          r == IF k \in IncKinds THEN PushLevel(st.stack, k)
               ELSE IF k \in DecKinds THEN PopLevel(st.stack, k)
               ELSE <<st.stack, lvl>>
          expected == r[2] * Unit
          st2 == [stack |-> r[1], force |-> IF ln.cont THEN expected + Unit ELSE 0]
      IN IF ln.ind # expected THEN [st |-> st2, out |-> Reindent(ln, expected), err |-> TRUE]
         ELSE pass(st2)

\* one pass over a file: [file (what is written), ok]
Pass(F) ==
  LET step(acc, ln) == LET r == Step(acc.st, ln) IN [st |-> r.st, file |-> Append(acc.file, r.out), ok |-> acc.ok /\ ~r.err]
      res == FoldLeft(step, [st |-> [stack |-> <<>>, force |-> 0], file |-> <<>>, ok |-> TRUE], F)
  IN [file |-> res.file, ok |-> res.ok]

RECURSIVE Passes(_, _)
Passes(F, n) == IF n = 0 THEN <<>> ELSE LET p == Pass(F) IN <<p>> \o (IF p.ok THEN <<>> ELSE Passes(p.file, n - 1))

Shape(F) == [i \in 1..Len(F) |-> <<F[i].ind, F[i].tabs, F[i].trail>>]
=============================================================================

----------------------------- MODULE MC_NavCheck -----------------------------
(* C17, validation of sessions recorded from the real MenuConfigState.       *)
EXTENDS Naturals, Integers, Sequences, FiniteSets, SequencesExt, TLC, Json, IOUtils

Data == JsonDeserialize(IOEnv.NAV_DATA)
Tab  == Data.tab
INSTANCE KNav WITH Num10 <- Tab.num10, Num16 <- Tab.num16, NumC <- Tab.numc,
                   DecStr <- Tab.decstr, HexStr <- Tab.hexstr, StrRank <- Tab.rank,
                   NumF <- Tab.numf, NormF <- Tab.normf, FCanon <- Tab.fcanon, HexPfx <- Tab.hexpfx

Progs == Data.progs
VARIABLES t, i, x, tree
vars == <<t, i, x, tree>>
View == <<t, i>>
Init == t \in 1..Len(Progs) /\ i = 0 /\ x = Index(Flatten(Progs[t].prog)) /\ tree = MkTree(Progs[t].prog, Progs[t].struct)
Next == i = 0 /\ t' = t /\ x' = x /\ tree' = tree /\ i' \in 1..Len(Progs[t].traces)
Spec == Init /\ [][Next]_vars

Pg == Progs[t]
Tr == Pg.traces[i]
Vals(s) == LET A == EvalI(x, Pg.ord, s.U, s.P, s.I) IN [k \in 1..Len(x.syms) |-> A.core[x.syms[k]].val]

RECURSIVE Walk(_, _, _)
Walk(k, s, nv) ==
  LET o == Tr.obs[k + 1] IN
  IF nv.err # "" THEN
       (IF o.raised THEN <<"P-NoRaise", k, nv.err, o.exception>>       \* specification and code agree: it raises
        ELSE <<"R-raise", k, nv.err, "no exception">>)
  ELSE IF o.raised THEN <<"P-NoRaise", k, "(specification: no failure)", o.exception>>
  ELSE IF nv.cur # o.cur \/ nv.shown # o.shown \/ nv.sel # o.sel \/ nv.all # o.all
       THEN <<"R-nav", k, <<nv.cur, nv.shown, nv.sel, nv.all>>, <<o.cur, o.shown, o.sel, o.all>>>>
  ELSE IF Vals(s) # o.vals THEN <<"R-values", k, Vals(s), o.vals>>
  ELSE IF ~(o.shown = <<>> \/ (0 <= o.sel /\ o.sel < Len(o.shown))) THEN <<"P-SelValid", k, o.sel, Len(o.shown)>>
  ELSE IF o.problem # "" THEN <<o.problem, k, o.detail, <<>>>>
  ELSE IF k = Len(Tr.h) THEN <<>>
  ELSE LET r == Event(x, Pg.ord, tree, <<>>, Pg.files, Pg.menus, s, nv, Pg.events[Tr.h[k + 1]])
       IN Walk(k + 1, r.st, r.nav)

Check ==
  LET s0 == Start(x, Pg.ord, <<>>, <<"lines", Pg.init>>)
      r == Walk(0, s0, StartNav(x, Pg.ord, tree, s0))
  IN r = <<>> \/ PrintT(<<r[1], t, i, r[2], r[3], r[4]>>)
All == i = 0 \/ Check
=============================================================================

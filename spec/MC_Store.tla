------------------------------ MODULE MC_Store ------------------------------
(***************************************************************************)
(* C02 / C10 (and the file side of C05, C08 first clause): for every       *)
(* (program, configuration) of the batch, the specification's Render /     *)
(* Load / MinLines are checked for the round-trip properties on the model, *)
(* and compared with what the real implementation wrote and re-read        *)
(* (reporter invariants print, never fail).                                *)
(***************************************************************************)
EXTENDS Naturals, Integers, Sequences, FiniteSets, SequencesExt, TLC, Json, IOUtils

Data == JsonDeserialize(IOEnv.STORE_DATA)
Tab  == Data.tab
McNum10 == Tab.num10
McNum16 == Tab.num16
McNumC  == Tab.numc
McDecStr == Tab.decstr
McHexStr == Tab.hexstr
McStrRank == Tab.rank

INSTANCE KStore WITH Num10 <- McNum10, Num16 <- McNum16, NumC <- McNumC,
                     DecStr <- McDecStr, HexStr <- McHexStr, StrRank <- McStrRank,
                    NumF <- Tab.numf, NormF <- Tab.normf, FCanon <- Tab.fcanon, HexPfx <- Tab.hexpfx

Progs == Data.progs
NT    == Len(Progs)

RECURSIVE ProdFrom(_, _)
ProdFrom(vs, k) == IF k > Len(vs) THEN 1 ELSE Len(vs[k].cands) * ProdFrom(vs, k + 1)
Total(t) == ProdFrom(Progs[t].vars, 1)
PickOf(vs, idx, k) == vs[k].cands[(((idx - 1) \div ProdFrom(vs, k + 1)) % Len(vs[k].cands)) + 1]

VARIABLES t, i, x
vars == <<t, i, x>>
View == <<t, i>>
X == x
Ord == Progs[t].ord

VarIdx(vs, n, kind) == {k \in 1..Len(vs) : vs[k].n = n /\ vs[k].kind = kind}
\* picks: the picked member carries the user value y
P0 == LET vs == Progs[t].vars IN
      [c \in {x.chs[k] : k \in 1..Len(x.chs)} |->
         LET ks == VarIdx(vs, c, "choice") IN IF ks = {} THEN NoVal ELSE PickOf(vs, i, CHOOSE k \in ks : TRUE)]
U0 == LET vs == Progs[t].vars IN
      [n \in {x.syms[k] : k \in 1..Len(x.syms)} |->
         LET ks == VarIdx(vs, n, "sym") IN
         IF ks # {} THEN
            LET raw == PickOf(vs, i, CHOOSE k \in ks : TRUE)
                ty == x.s[n].type
            IN IF raw = NoVal THEN NoVal ELSE IF ValidFor(ty, raw) THEN Norm(ty, raw) ELSE NoVal
         ELSE IF x.s[n].ch # "" /\ P0[x.s[n].ch] = n THEN "y" ELSE NoVal]

Init == t \in 1..NT /\ i = 0 /\ x = Index(Flatten(Progs[t].prog))
Next == i = 0 /\ t' = t /\ i' \in 1..Total(t) /\ x' = x
Spec == Init /\ [][Next]_vars

----------------------------------------------------------------------------
Vals(A) == [k \in 1..Len(X.syms) |-> A.core[X.syms[k]].val]
NoRen == <<>>
Triples(F) == [k \in 1..Len(F) |-> <<F[k].n, F[k].v, F[k].d>>]
Pairs(F) == [k \in 1..Len(F) |-> <<F[k].n, F[k].v>>]

Obs == Progs[t].store[i]

Check ==
  LET A  == Eval(X, Ord, U0, P0)
      F  == Render(X, A, U0, P0)
      L  == Load(X, NoRen, F, TRUE, NoUser(X).U, NoUser(X).P)
      A2 == Eval(X, Ord, L.U, L.P)
      F2 == Render(X, A2, L.U, L.P)
      M  == MinLines(X, A, U0, P0)
      LM == Load(X, NoRen, M, TRUE, NoUser(X).U, NoUser(X).P)
      AM == Eval(X, Ord, LM.U, LM.P)
      say(tag, a, b) == PrintT(<<tag, t, i, a, b>>)
  IN
  \* ---- conformance (reporters)
  /\ (Triples(F) = Obs.lines \/ say("R-render", Triples(F), Obs.lines))
  /\ (Vals(A2) = Obs.rt_vals \/ say("R-reload", Vals(A2), Obs.rt_vals))
  /\ (Triples(F2) = Obs.rt_lines \/ say("R-rerender", Triples(F2), Obs.rt_lines))
  /\ (Triples(M) = Obs.min_lines \/ say("R-min", Triples(M), Obs.min_lines))
  /\ (Vals(AM) = Obs.min_vals \/ say("R-minload", Vals(AM), Obs.min_vals))
  \* ---- the properties on the implementation's observations
  /\ (Obs.rt_vals = Obs.vals \/ say("P-RtValues", Obs.vals, Obs.rt_vals))
  /\ ([k \in 1..Len(Obs.rt_lines) |-> <<Obs.rt_lines[k][1], Obs.rt_lines[k][2]>>]
        = [k \in 1..Len(Obs.lines) |-> <<Obs.lines[k][1], Obs.lines[k][2]>>]
      \/ say("P-RtLines", Obs.lines, Obs.rt_lines))
  /\ (Obs.rt_same \/ say("P-RtBytes", Obs.lines, Obs.rt_lines))
  /\ (Obs.rt_quiet = <<>> \/ say("P-RtQuiet", Obs.rt_quiet, <<>>))
  /\ (Obs.min_vals = Obs.vals \/ say("P-MinReconstructs", Obs.vals, Obs.min_vals))
  /\ (Obs.min_variants_same \/ say("P-MinVariants", Obs.min_lines, <<>>))
  \* ---- the properties on the model (design level); printed, judged by the harness
  /\ (Vals(A2) = Vals(A) \/ say("D-RtValues", Vals(A), Vals(A2)))
  /\ (Triples(F2) = Triples(F) \/ say("D-RtBytes", Triples(F), Triples(F2)))
  /\ (Vals(AM) = Vals(A) \/ say("D-MinReconstructs", Vals(A), Vals(AM)))

All == i = 0 \/ Obs.err \/ Check
=============================================================================

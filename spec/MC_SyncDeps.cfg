SPECIFICATION Spec
VIEW View
INVARIANT TypeOK
INVARIANT NoLostTrigger
INVARIANT NoSpurious
INVARIANT Idempotent
INVARIANT Recorded
CONSTANTS
  Cfgs <- McCfgs
  Names <- McNames
  Unq <- McUnq
  TornVals <- McTorn
  AtomicWrite <- McAtomic
  FlagVanished <- McFlagVanished
  MaxChanges <- McMaxChanges
  MaxCrashes <- McMaxCrashes
  MaxSyncs <- McMaxSyncs

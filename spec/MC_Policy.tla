----------------------------- MODULE MC_Policy -----------------------------
(***************************************************************************)
(* C08: inferred values stay inferred; user values stay user values.       *)
(* A case = a (new) program, a file written by the tool under the old      *)
(* program (its parsed lines), a defaults policy and a sequence of edits.  *)
(* The specification's LoadP + edits is compared with the real instance,   *)
(* the first clause (same program: loading with or without the default-    *)
(* marked entries gives the same configuration now and after the edits)    *)
(* and the second clause (policy kconfig ignores, policy sdkconfig keeps   *)
(* valid / in-range / visible stored defaults as inferred values, both     *)
(* report, promptless ignored) are evaluated on model and observations.    *)
(***************************************************************************)
EXTENDS Naturals, Integers, Sequences, FiniteSets, SequencesExt, TLC, Json, IOUtils

Data == JsonDeserialize(IOEnv.POL_DATA)
Tab  == Data.tab
INSTANCE KStore WITH Num10 <- Tab.num10, Num16 <- Tab.num16, NumC <- Tab.numc,
                     DecStr <- Tab.decstr, HexStr <- Tab.hexstr, StrRank <- Tab.rank,
                     NumF <- Tab.numf, NormF <- Tab.normf, FCanon <- Tab.fcanon, HexPfx <- Tab.hexpfx

Progs == Data.progs
VARIABLES t, i, x
vars == <<t, i, x>>
View == <<t, i>>
Init == t \in 1..Len(Progs) /\ i = 0 /\ x = Index(Flatten(Progs[t].prog))
Next == i = 0 /\ t' = t /\ x' = x /\ i' \in 1..Len(Progs[t].cases)
Spec == Init /\ [][Next]_vars

Cs  == Progs[t].cases[i]
Ord == Progs[t].ord
Vals(A) == [k \in 1..Len(x.syms) |-> A.core[x.syms[k]].val]
Marks(A, U, P) == [k \in 1..Len(x.syms) |-> IF A.core[x.syms[k]].written THEN (IF Marked(x, A, U, P, x.syms[k]) THEN "d" ELSE "u") ELSE "-"]
IdxOf(n) == CHOOSE k \in 1..Len(x.syms) : x.syms[k] = n

\* the run of a session: state after the load, then after each edit
RECURSIVE RunFrom(_, _, _)
RunFrom(st, I, acts) ==
  IF acts = <<>> THEN <<>>
  ELSE LET st2 == ApplyAct(x, <<>>, <<>>, st, Head(acts))
       IN <<Vals(EvalI(x, Ord, st2.U, st2.P, I))>> \o RunFrom(st2, I, Tail(acts))

InRangeNow(A, n, v) ==   \* v lies in the range active for n (or none is active / n is not numeric)
  LET S == x.s[n]
      ri == FirstTrue(x, A, S.ranges) IN
  S.type \notin {"int", "hex", "float"} \/ ri = 0 \/ ~IsNum(S.type, v)
  \/ (NumOr0(S.type, AtomStr(x, A, S.ranges[ri].lo)) <= NumOf(S.type, v)
      /\ NumOf(S.type, v) <= NumOr0(S.type, AtomStr(x, A, S.ranges[ri].hi)))

Check ==
  LET F   == Cs.file
      L   == LoadP(x, Ord, <<>>, F, Cs.policy)
      A0  == EvalI(x, Ord, L.U, L.P, L.I)
      run == RunFrom([U |-> L.U, P |-> L.P], L.I, Cs.edits)
      LS  == LoadP(x, Ord, <<>>, StripDefaults(F), Cs.policy)
      AS0 == EvalI(x, Ord, LS.U, LS.P, LS.I)
      runS == RunFrom([U |-> LS.U, P |-> LS.P], LS.I, Cs.edits)
      o   == Cs.obs
      dm  == DefaultMarked(x, <<>>, F)
      say(tag, a, b) == PrintT(<<tag, t, i, a, b>>)
  IN
  \* ---- conformance
  /\ (Vals(A0) = o.vals0 \/ say("R-load", Vals(A0), o.vals0))
  /\ (Marks(A0, L.U, L.P) = o.marks0 \/ say("R-marks", Marks(A0, L.U, L.P), o.marks0))
  /\ (run = o.steps \/ say("R-edits", run, o.steps))
  /\ (Cs.focus = "" \/ ((Cs.focus \in L.mism) = (Cs.focus \in ToSet(o.diag))) \/ say("R-reported", L.mism, o.diag))
  \* ---- first clause, model and observations (same program)
  /\ (~Cs.same \/ (Vals(A0) = Vals(AS0) /\ run = runS) \/ say("D-NoPin", <<Vals(A0)>> \o run, <<Vals(AS0)>> \o runS))
  /\ (~Cs.same \/ (o.vals0 = o.vals0_stripped /\ o.steps = o.steps_stripped) \/ say("P-NoPin", <<o.vals0>> \o o.steps, <<o.vals0_stripped>> \o o.steps_stripped))
  /\ (~Cs.same \/ o.diag = <<>> \/ say("P-NoMismatchSameTree", o.diag, <<>>))
  \* ---- second clause on the observations
  /\ (Cs.policy # "kconfig" \/ (o.vals0 = o.vals0_stripped /\ o.steps = o.steps_stripped)
      \/ say("P-PolicyKconfig", <<o.vals0>> \o o.steps, <<o.vals0_stripped>> \o o.steps_stripped))
  /\ (Cs.policy # "sdkconfig"
      \/ (\A k \in 1..Len(dm) :
            LET n == dm[k].n
                st == Norm(x.s[n].type, StoredOf(dm, n)) IN
            (x.s[n].ch = "" /\ L.U[n] = NoVal /\ A0.core[n].vis = 2 /\ A0.core[n].src \notin {"select", "set"}
             /\ ValidFor(x.s[n].type, StoredOf(dm, n)) /\ InRangeNow(A0, n, st))
              => (o.vals0[IdxOf(n)] = st /\ o.marks0[IdxOf(n)] = "d"))
      \/ say("P-PolicySdkconfig", dm, o.vals0))
  \* entries for promptless options are ignored: the same file without them loads identically
  /\ (o.vals0 = o.vals0_nopl \/ say("P-PromptlessIgnored", o.vals0, o.vals0_nopl))

All == i = 0 \/ Cs.err \/ Check
=============================================================================

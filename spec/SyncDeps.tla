------------------------------ MODULE SyncDeps ------------------------------
(***************************************************************************)
(* Kconfig.sync_deps(): the incremental-build dependency sync.             *)
(*                                                                         *)
(* One action per file-system operation of the code (esp_kconfiglib/core.py*)
(* sync_deps, _load_old_vals, _touch_dep_file, _write_old_vals), a Crash   *)
(* action that may replace any pending operation (and may tear the line    *)
(* being written), and free configuration / tree changes between syncs.    *)
(*                                                                         *)
(* A configuration c (element of Cfgs, produced by the harness as JSON) is *)
(* a record                                                                *)
(*   order  : sequence of the option names defined in the tree, tree order *)
(*   known  : set of names `name in kconf.syms` (defined or only referenced)*)
(*   w      : name -> BOOLEAN   the option is written to configuration     *)
(*   val    : name -> string    its value                                  *)
(*   isbool : name -> BOOLEAN                                              *)
(*   isstr  : name -> BOOLEAN                                              *)
(*   ishex  : name -> BOOLEAN                                              *)
(*   isint  : name -> BOOLEAN                                              *)
(*   rhs    : name -> string    right-hand side of its auto.conf line      *)
(*   aliases: Names -> sequence of deprecated alias names (rename table)    *)
(*   vv     : Names -> string   build-visible value ("absent" if the name  *)
(*            is not defined in the generated header)                      *)
(***************************************************************************)
EXTENDS Naturals, Integers, Sequences, FiniteSets, SequencesExt, TLC

CONSTANTS Cfgs,          \* sequence of configuration records
          Unq,           \* quoted right-hand side -> string value (unescape); others do not parse
          Names,         \* every name that may own a dependency file
          TornVals,      \* values a torn (partially written) line may parse to
          AtomicWrite,   \* TRUE: auto.conf is written through a temp file + replace
                         \*   (FALSE = the code before the fix: truncate and write in place)
          FlagVanished,  \* TRUE: a name in auto.conf that is no longer *defined* is touched together
                         \*   with its aliases (FALSE = before the fix: only names unknown to the
                         \*   tree, and not their aliases)
          MaxChanges, MaxCrashes, MaxSyncs

VARIABLES cfg,        \* index into Cfgs
          dir,        \* the directory exists
          ac,         \* auto.conf   [ex |-> BOOLEAN, lines |-> Seq(<<name, val>>)]
          tmp,        \* auto.conf.tmp (same shape)
          pc, tq, wq, \* control: program counter, pending touches, pending lines
          opn,        \* number of mutating operations performed in this run
          wrote,      \* this run opened a file for writing
          done,       \* ghost: build-visible values at the last completed sync
          cfgDone,    \* ghost: the configuration (index) of the last completed sync, 0 before the first
          touched,    \* ghost: names touched since `done` was recorded
          touchedRun, \* ghost: names touched in the current run
          clean,      \* ghost: no crash since the last completed sync
          synced,     \* ghost: some sync has completed
          nchg, ncrash, nsync,
          hist        \* history of commands (for replay); hidden by the VIEW

sysvars == <<cfg, dir, ac, tmp, pc, tq, wq, opn, wrote>>
ghosts  == <<done, cfgDone, touched, touchedRun, clean, synced>>
bounds  == <<nchg, ncrash, nsync>>
vars    == <<sysvars, ghosts, bounds, hist>>
View    == <<sysvars, ghosts, bounds>>

None   == "<none>"
Absent == "absent"
NoFile == [ex |-> FALSE, lines |-> <<>>]
Empty  == [ex |-> TRUE, lines |-> <<>>]

----------------------------------------------------------------------------
(* Pure helpers shared with the trace specification.                       *)

Defined(c) == {c.order[i] : i \in 1..Len(c.order)}
StillKnown(c) == IF FlagVanished THEN Defined(c) ELSE c.known

\* _load_old_vals: the last parsable line for a known name wins.
\* A string option's line must be a quoted literal, otherwise the line is skipped.
Parses(c, ln) == ln[1] \in Defined(c) /\ c.isstr[ln[1]] => ln[2] \in DOMAIN Unq
\* A hex option counts by the number the header shows (ff and 0xff are both written 0xff there): Unq also maps the
\* spellings of hex values to that form, and c.val of a hex option is given in it.
ValueOf(c, ln) == IF ln[1] \in Defined(c) /\ c.isstr[ln[1]] THEN Unq[ln[2]]
                  ELSE IF ln[1] \in Defined(c) /\ c.ishex[ln[1]] /\ ln[2] \in DOMAIN Unq THEN Unq[ln[2]]
                  \* ... and an int option by the number the header shows (07 is written 7 there)
                  ELSE IF ln[1] \in Defined(c) /\ c.isint[ln[1]] /\ ("int:" \o ln[2]) \in DOMAIN Unq THEN Unq["int:" \o ln[2]]
                  ELSE ln[2]
OldOf(c, lines) ==
  [s \in c.known |->
     LET idx == {i \in 1..Len(lines) : lines[i][1] = s /\ Parses(c, lines[i])}
     IN IF idx = {} THEN None
        ELSE ValueOf(c, lines[CHOOSE i \in idx : \A j \in idx : j <= i])]

\* names in auto.conf that the tree no longer knows: touched while loading
Vanished(c, lines) ==
  LET sel == SelectSeq(lines, LAMBDA ln : ln[1] \notin StillKnown(c))
      step(acc, ln) == IF FlagVanished /\ ln[1] \in DOMAIN c.aliases
                         THEN acc \o <<ln[1]>> \o c.aliases[ln[1]]
                         ELSE acc \o <<ln[1]>>
  IN FoldLeft(step, <<>>, sel)

\* the comparison in the loop of sync_deps()
Changed(c, old, s) ==
  IF c.w[s]
    THEN ~ ( (old[s] = None /\ c.isbool[s] /\ c.val[s] = "n") \/ c.val[s] = old[s] )
    ELSE old[s] # None

TouchList(c, f) ==
  LET lines == IF f.ex THEN f.lines ELSE <<>>
      old   == OldOf(c, lines)
      step(acc, s) == IF Changed(c, old, s) THEN acc \o <<s>> \o c.aliases[s] ELSE acc
  IN Vanished(c, lines) \o FoldLeft(step, <<>>, c.order)

\* _old_vals_contents(): one line per written option that is not a bool n
HasLine(c, s) == c.w[s] /\ ~(c.isbool[s] /\ c.val[s] = "n")
Content(c) ==
  LET sel == SelectSeq(c.order, LAMBDA s : HasLine(c, s))
  IN [i \in 1..Len(sel) |-> <<sel[i], c.rhs[sel[i]]>>]

SameContent(c, f) == f.ex /\ f.lines = Content(c)

----------------------------------------------------------------------------
C == Cfgs[cfg]

Init ==
  /\ cfg \in 1..Len(Cfgs)
  /\ dir = FALSE /\ ac = NoFile /\ tmp = NoFile
  /\ pc = "idle" /\ tq = <<>> /\ wq = <<>> /\ opn = 0 /\ wrote = FALSE
  /\ done = [n \in Names |-> Absent] /\ cfgDone = 0 /\ touched = {} /\ touchedRun = {} /\ clean = TRUE /\ synced = FALSE
  /\ nchg = 0 /\ ncrash = 0 /\ nsync = 0
  /\ hist = <<<<"cfg", cfg, "">>>>

ChangeCfg ==
  /\ pc = "idle" /\ nchg < MaxChanges
  /\ \E i \in 1..Len(Cfgs) : i # cfg /\ cfg' = i /\ hist' = Append(hist, <<"cfg", i, "">>)
  /\ nchg' = nchg + 1
  /\ UNCHANGED <<dir, ac, tmp, pc, tq, wq, opn, wrote, ghosts, ncrash, nsync>>

StartSync ==
  /\ pc = "idle" /\ nsync < MaxSyncs
  /\ pc' = IF dir THEN "load" ELSE "mkdir"
  /\ opn' = 0 /\ wrote' = FALSE /\ touchedRun' = {} /\ nsync' = nsync + 1
  /\ tq' = <<>> /\ wq' = <<>>
  /\ UNCHANGED <<cfg, dir, ac, tmp, done, cfgDone, touched, clean, synced, nchg, ncrash, hist>>

Mkdir ==
  /\ pc = "mkdir" /\ dir' = TRUE /\ opn' = opn + 1 /\ pc' = "load"
  /\ UNCHANGED <<cfg, ac, tmp, tq, wq, wrote, ghosts, bounds, hist>>

Load ==   \* read auto.conf; decide what to touch
  /\ pc = "load" /\ tq' = TouchList(C, ac) /\ pc' = "touch"
  /\ UNCHANGED <<cfg, dir, ac, tmp, wq, opn, wrote, ghosts, bounds, hist>>

Touch ==
  /\ pc = "touch" /\ tq # <<>>
  /\ touched' = touched \cup {Head(tq)} /\ touchedRun' = touchedRun \cup {Head(tq)}
  /\ tq' = Tail(tq) /\ opn' = opn + 1
  /\ UNCHANGED <<cfg, dir, ac, tmp, pc, wq, wrote, done, cfgDone, clean, synced, bounds, hist>>

Compare ==  \* _write_if_changed / _contents_eq
  /\ pc = "touch" /\ tq = <<>>
  /\ pc' = IF SameContent(C, ac) THEN "finish" ELSE "open"
  /\ UNCHANGED <<cfg, dir, ac, tmp, tq, wq, opn, wrote, ghosts, bounds, hist>>

OpenW ==
  /\ pc = "open" /\ opn' = opn + 1 /\ wrote' = TRUE /\ wq' = Content(C) /\ pc' = "write"
  /\ IF AtomicWrite THEN tmp' = Empty /\ ac' = ac ELSE ac' = Empty /\ tmp' = tmp
  /\ UNCHANGED <<cfg, dir, tq, ghosts, bounds, hist>>

WriteLine ==
  /\ pc = "write" /\ wq # <<>>
  /\ IF AtomicWrite THEN tmp' = [tmp EXCEPT !.lines = Append(@, Head(wq))] /\ ac' = ac
                    ELSE ac' = [ac EXCEPT !.lines = Append(@, Head(wq))] /\ tmp' = tmp
  /\ wq' = Tail(wq) /\ opn' = opn + 1
  /\ UNCHANGED <<cfg, dir, pc, tq, wrote, ghosts, bounds, hist>>

WriteDone ==
  /\ pc = "write" /\ wq = <<>> /\ pc' = IF AtomicWrite THEN "replace" ELSE "finish"
  /\ UNCHANGED <<cfg, dir, ac, tmp, tq, wq, opn, wrote, ghosts, bounds, hist>>

Replace ==
  /\ pc = "replace" /\ ac' = tmp /\ tmp' = NoFile /\ opn' = opn + 1 /\ pc' = "finish"
  /\ UNCHANGED <<cfg, dir, tq, wq, wrote, ghosts, bounds, hist>>

Finish ==
  /\ pc = "finish" /\ pc' = "idle"
  /\ done' = C.vv /\ cfgDone' = cfg /\ touched' = {} /\ clean' = TRUE /\ synced' = TRUE
  /\ hist' = Append(hist, <<"sync", -1, "">>)
  /\ UNCHANGED <<cfg, dir, ac, tmp, tq, wq, opn, wrote, touchedRun, bounds>>

\* The process dies instead of performing the pending operation.
PendingOp == \/ pc \in {"mkdir", "open", "replace"}
             \/ pc = "touch" /\ tq # <<>>
             \/ pc = "write" /\ wq # <<>>

Crash ==
  /\ PendingOp /\ ncrash < MaxCrashes
  /\ pc' = "idle" /\ clean' = FALSE /\ ncrash' = ncrash + 1
  /\ \/ /\ UNCHANGED <<ac, tmp>> /\ hist' = Append(hist, <<"sync", opn, "">>)
     \/ /\ pc = "write" /\ wq # <<>>          \* a torn line reaches the file
        /\ \E t \in TornVals :
             /\ IF AtomicWrite THEN tmp' = [tmp EXCEPT !.lines = Append(@, <<Head(wq)[1], t>>)] /\ ac' = ac
                               ELSE ac' = [ac EXCEPT !.lines = Append(@, <<Head(wq)[1], t>>)] /\ tmp' = tmp
             /\ hist' = Append(hist, <<"sync", opn, t>>)
  /\ UNCHANGED <<cfg, dir, tq, wq, opn, wrote, done, cfgDone, touched, touchedRun, synced, nchg, nsync>>

Next == ChangeCfg \/ StartSync \/ Mkdir \/ Load \/ Touch \/ Compare \/ OpenW
        \/ WriteLine \/ WriteDone \/ Replace \/ Finish \/ Crash

Spec == Init /\ [][Next]_vars

----------------------------------------------------------------------------
(* The property.                                                           *)

NoLostTrigger ==
  pc = "finish" => \A n \in Names : C.vv[n] # done[n] => n \in touched

NoSpurious ==
  (pc = "finish" /\ clean) => \A n \in Names : C.vv[n] = done[n] => n \notin touchedRun

\* (the record itself is left alone when the very same configuration is synced again; a configuration that only
\* spells a hex value differently shows the same values but has another record)
Idempotent ==
  (pc = "finish" /\ clean /\ synced /\ \A n \in Names : C.vv[n] = done[n]) => (touchedRun = {} /\ (cfg = cfgDone => ~wrote))

\* a completed sync leaves auto.conf describing the current configuration
Recorded == pc = "finish" => SameContent(C, ac)

TypeOK ==
  /\ cfg \in 1..Len(Cfgs) /\ dir \in BOOLEAN /\ clean \in BOOLEAN /\ wrote \in BOOLEAN
  /\ pc \in {"idle", "mkdir", "load", "touch", "open", "write", "replace", "finish"}
  /\ touched \subseteq Names /\ touchedRun \subseteq touched \cup touchedRun

=============================================================================

------------------------------ MODULE MC_Server ------------------------------
(***************************************************************************)
(* C14: sessions with the real config server, validated against KServer.   *)
(* A trace = initial file, protocol version, request sequence, and what was *)
(* observed: the initial message, every reply (abstracted per channel), and *)
(* the initial message of a fresh server started on the file written by a   *)
(* final `save`.  The specification's replies and client are computed in    *)
(* lockstep; InSync is evaluated on the model at every step, and on the     *)
(* observed client against the fresh server's message.                      *)
(***************************************************************************)
EXTENDS Naturals, Integers, Sequences, FiniteSets, SequencesExt, TLC, Json, IOUtils

Data == JsonDeserialize(IOEnv.SRV_DATA)
Tab  == Data.tab
INSTANCE KServer WITH Num10 <- Tab.num10, Num16 <- Tab.num16, NumC <- Tab.numc,
                      DecStr <- Tab.decstr, HexStr <- Tab.hexstr, StrRank <- Tab.rank,
                      NumF <- Tab.numf, NormF <- Tab.normf, FCanon <- Tab.fcanon, HexPfx <- Tab.hexpfx

Progs == Data.progs
VARIABLES t, i, x
vars == <<t, i, x>>
View == <<t, i>>
Init == t \in 1..Len(Progs) /\ i = 0 /\ x = Index(Flatten(Progs[t].prog))
Next == i = 0 /\ t' = t /\ x' = x /\ i' \in 1..Len(Progs[t].traces)
Spec == Init /\ [][Next]_vars

Pg  == Progs[t]
Tr  == Pg.traces[i]
Ord == Pg.ord
\* restriction of an observed channel to the keys the specification speaks about
OnSpec(f) == [k \in {k \in DOMAIN f : k \in DOMAIN x.s \/ k \in DOMAIN x.c} |-> f[k]]
ObsCh(m) == [values |-> m.values, visible |-> OnSpec(m.visible), ranges |-> m.ranges, defaults |-> m.defaults]
Ver3(m, ver) == IF ver >= 3 THEN m ELSE [m EXCEPT !.defaults = <<>>]

Start ==
  LET files == [k \in 1..Len(Pg.files) |-> Pg.files[k]]
      l == Load(x, <<>>, files[Tr.start], TRUE, NoUser(x).U, NoUser(x).P)
  IN [U |-> l.U, P |-> l.P, I |-> NoInj(x), path |-> Tr.start, files |-> files]

\* InSync: what the client holds against the full state of the configuration
InSyncP(c, f, ver) ==
  /\ c.visible = f.visible
  /\ \A k \in DOMAIN f.values : k \in DOMAIN c.values /\ c.values[k] = f.values[k]
  /\ \A k \in DOMAIN c.values \ DOMAIN f.values : ~c.visible[k]
  /\ \A k \in DOMAIN f.ranges : k \in DOMAIN c.ranges /\ c.ranges[k] = f.ranges[k]
  /\ ver < 3 \/ c.defaults = f.defaults
StaleRange(c, f) == {k \in DOMAIN c.ranges \ DOMAIN f.ranges : k \in DOMAIN f.visible /\ f.visible[k]}

RECURSIVE Walk(_, _, _, _)
\* returns the first problem as <<tag, step, a, b>> or <<>>
Walk(k, st, cl, ocl) ==
  IF k > Len(Tr.reqs) THEN
     \* at the end: the fresh server on the saved file
     IF Tr.fresh.present
       THEN LET fr == Ver3(ObsCh(Tr.fresh), 3)
                fs == Full(x, Ord, st)
                Tri(F) == [j \in 1..Len(F) |-> <<F[j].n, F[j].v, F[j].d>>]
                \* every file of the session holds what the specification's saves put there (which file a
                \* `save: null` goes to is part of the protocol: the last used one)
                wrong == {j \in 1..Len(Tr.disk) : Tri(st.files[j]) # Tr.disk[j]}
            IN IF wrong # {} THEN LET j == CHOOSE j \in wrong : TRUE IN <<"R-SavedWhere", j, Tri(st.files[j]), Tr.disk[j]>>
               ELSE IF ~(fr.values = fs.values /\ fr.visible = fs.visible /\ fr.ranges = fs.ranges)
                 THEN <<"R-SaveFaithful", k, fs, fr>>
               ELSE IF ~(Tr.fresh.visible = ocl.visible
                         /\ (\A n \in DOMAIN Tr.fresh.values : n \in DOMAIN ocl.values /\ ocl.values[n] = Tr.fresh.values[n])
                         /\ (\A n \in DOMAIN ocl.values \ DOMAIN Tr.fresh.values : ~ocl.visible[n])
                         /\ (\A n \in DOMAIN Tr.fresh.ranges : n \in DOMAIN ocl.ranges /\ ocl.ranges[n] = Tr.fresh.ranges[n]))
                 THEN <<"P-InSyncFresh", k, Tr.fresh, ocl>>
               ELSE LET stale == {n \in DOMAIN ocl.ranges \ DOMAIN Tr.fresh.ranges : n \in DOMAIN Tr.fresh.visible /\ Tr.fresh.visible[n]}
                    IN IF stale # {} THEN <<"P-StaleRange", k, stale, {}>> ELSE <<>>
       ELSE <<>>
  ELSE
    LET req == Tr.reqs[k]
        bf == Full(x, Ord, st)
        h == Handle(x, Ord, <<>>, Pg.menus, st, req)
        af == Full(x, Ord, h.st)
        rep == Ver3(DiffAll(bf, af), req.ver)
        orep == Ver3(ObsCh(Tr.replies[k]), req.ver)
        cl2 == Merge(cl, rep)
        ocl2 == [values |-> Overlay(ocl.values, Tr.replies[k].values), visible |-> Overlay(ocl.visible, Tr.replies[k].visible),
                 ranges |-> Overlay(ocl.ranges, Tr.replies[k].ranges), defaults |-> Overlay(ocl.defaults, Tr.replies[k].defaults)]
    IN IF rep # orep THEN <<"R-reply", k, rep, orep>>
       ELSE IF (h.errs > 0) # Tr.replies[k].error THEN <<"R-error", k, h.errs, Tr.replies[k].error>>
       ELSE IF ~InSyncP(cl2, af, req.ver) THEN <<"D-InSync", k, cl2, af>>
       ELSE IF StaleRange(cl2, af) # {} /\ FALSE THEN <<>>
       ELSE Walk(k + 1, h.st, cl2, ocl2)

Check ==
  LET st0 == Start
      f0 == Full(x, Ord, st0)
      o0 == Ver3(ObsCh(Tr.initial), Tr.ver0)
      r == IF Ver3(f0, Tr.ver0) # o0 THEN <<"R-initial", 0, Ver3(f0, Tr.ver0), o0>>
           ELSE Walk(1, st0, f0, [values |-> Tr.initial.values, visible |-> Tr.initial.visible,
                                  ranges |-> Tr.initial.ranges, defaults |-> Tr.initial.defaults])
  IN r = <<>> \/ PrintT(<<r[1], t, i, r[2], r[3], r[4]>>)

All == i = 0 \/ Tr.err \/ Check
=============================================================================

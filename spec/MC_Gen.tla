-------------------------------- MODULE MC_Gen --------------------------------
(***************************************************************************)
(* kconfgen's command-line flow (KStore.GenRun): defaults files merged in  *)
(* order, the sdkconfig merged on top, outputs written.  A case = program, *)
(* defaults files, sdkconfig (absent / lines), policy and what the real    *)
(* kconfgen main() wrote as `--output config`.  Clauses:                   *)
(*   R-gen            the written configuration is Render of GenRun        *)
(*   D-/P-GenFixpoint a run on the sdkconfig a previous run wrote, with    *)
(*                    the same defaults files, rewrites nothing (C02       *)
(*                    through the command line) and reports nothing        *)
(***************************************************************************)
EXTENDS Naturals, Integers, Sequences, FiniteSets, SequencesExt, TLC, Json, IOUtils

Data == JsonDeserialize(IOEnv.GEN_DATA)
Tab  == Data.tab
INSTANCE KStore WITH Num10 <- Tab.num10, Num16 <- Tab.num16, NumC <- Tab.numc,
                     DecStr <- Tab.decstr, HexStr <- Tab.hexstr, StrRank <- Tab.rank,
                     NumF <- Tab.numf, NormF <- Tab.normf, FCanon <- Tab.fcanon, HexPfx <- Tab.hexpfx

Progs == Data.progs
VARIABLES t, i, x
vars == <<t, i, x>>
View == <<t, i>>
Init == t \in 1..Len(Progs) /\ i = 0 /\ x = Index(Flatten(Progs[t].prog))
Next == i = 0 /\ t' = t /\ x' = x /\ i' \in 1..Len(Progs[t].cases)
Spec == Init /\ [][Next]_vars

Cs  == Progs[t].cases[i]
Ord == Progs[t].ord
Triples(F) == [k \in 1..Len(F) |-> <<F[k].n, F[k].v, F[k].d>>]

Check ==
  LET g == GenRun(x, Ord, <<>>, Cs.ds, Cs.sdk, Cs.policy)
      A == EvalI(x, Ord, g.U, g.P, g.I)
      F == Render(x, A, g.U, g.P)
      o == Cs.obs
      say(tag, a, b) == PrintT(<<tag, t, i, a, b>>)
  IN
  /\ (Triples(F) = o.lines \/ say("R-gen", Triples(F), o.lines))
  /\ (~Cs.fix \/ Triples(F) = Triples(Cs.sdk.lines) \/ say("D-GenFixpoint", Triples(Cs.sdk.lines), Triples(F)))
  /\ (~Cs.fix \/ o.same \/ say("P-GenFixpoint", Triples(Cs.sdk.lines), o.lines))
  /\ (~Cs.fix \/ o.diag = <<>> \/ say("P-GenQuiet", o.diag, <<>>))

All == i = 0 \/ Cs.err \/ Check
=============================================================================

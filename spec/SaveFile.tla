------------------------------ MODULE SaveFile ------------------------------
(***************************************************************************)
(* How esp-idf-kconfig (re)writes its output files.                        *)
(*                                                                         *)
(*   flow "cfg" : Kconfig.write_config(save_old=True)                      *)
(*                _contents_eq -> _save_old (os.replace, or copy when the  *)
(*                destination is a symlink) -> open(w) -> write            *)
(*   flow "wic" : Kconfig._write_if_changed (write_autoconf,               *)
(*                write_min_config): _contents_eq -> open(w) -> write      *)
(*   flow "gen" : kconfgen main(): writer(temp) -> update_if_changed(temp, *)
(*                dest) -> remove(temp)                                    *)
(*                                                                         *)
(* One action per file-system operation; Crash may replace any pending     *)
(* operation and may tear the chunk being written.  A file is              *)
(* [ex |-> BOOLEAN, data |-> Seq(chunk)]; a chunk of text t is <<t, i>>.   *)
(***************************************************************************)
EXTENDS Naturals, Sequences, FiniteSets, TLC

CONSTANTS Flows,       \* subset of {"cfg", "wic", "gen"}
          MaxChunks    \* texts have 1..MaxChunks chunks

VARIABLES flow, dest, old, tmp, link, newc, pc, wq, cq,
          prev,      \* ghost: the destination when the save started
          mutated,   \* ghost: some operation changed the destination (or the file it links to)
          crashed

vars == <<flow, dest, old, tmp, link, newc, pc, wq, cq, prev, mutated, crashed>>

NoFile == [ex |-> FALSE, data |-> <<>>]
Empty  == [ex |-> TRUE, data |-> <<>>]
Text(t, n) == [i \in 1..n |-> <<t, i>>]
File(seq)  == [ex |-> TRUE, data |-> seq]

Init ==
  /\ flow \in Flows
  /\ \E p \in 0..MaxChunks, n \in 1..MaxChunks, same \in BOOLEAN, stale \in BOOLEAN, lk \in BOOLEAN :
       /\ dest = IF p = 0 THEN NoFile ELSE File(Text("p", p))
       /\ link = (lk /\ p > 0)
       /\ newc = IF same /\ p > 0 THEN Text("p", p) ELSE Text("n", n)
       /\ old = IF stale THEN File(Text("s", 1)) ELSE NoFile
  /\ tmp = NoFile /\ pc = "start" /\ wq = <<>> /\ cq = <<>>
  /\ prev = dest /\ mutated = FALSE /\ crashed = FALSE

Same == dest.ex /\ dest.data = newc

\* ---- flow "gen": the writer fills a temporary file first
Start ==
  /\ pc = "start"
  /\ IF flow = "gen" THEN pc' = "tmpwrite" /\ tmp' = Empty /\ wq' = newc
                     ELSE pc' = "cmp" /\ UNCHANGED <<tmp, wq>>
  /\ UNCHANGED <<flow, dest, old, link, newc, cq, prev, mutated, crashed>>

TmpWrite ==
  /\ pc = "tmpwrite"
  /\ IF wq = <<>> THEN pc' = "cmp" /\ UNCHANGED <<tmp, wq>>
                  ELSE tmp' = [tmp EXCEPT !.data = Append(@, Head(wq))] /\ wq' = Tail(wq) /\ pc' = pc
  /\ UNCHANGED <<flow, dest, old, link, newc, cq, prev, mutated, crashed>>

\* ---- _contents_eq / update_if_changed comparison
Compare ==
  /\ pc = "cmp"
  /\ pc' = IF Same THEN (IF flow = "gen" THEN "rmtmp" ELSE "done")
           ELSE IF flow = "cfg" THEN "saveold" ELSE "open"
  /\ UNCHANGED <<flow, dest, old, tmp, link, newc, wq, cq, prev, mutated, crashed>>

\* ---- _save_old
SaveOldReplace ==   \* regular file: os.replace(dest, dest.old); a missing dest is ignored
  /\ pc = "saveold" /\ ~link
  /\ IF dest.ex THEN old' = dest /\ dest' = NoFile /\ mutated' = TRUE
                ELSE UNCHANGED <<old, dest, mutated>>
  /\ pc' = "open"
  /\ UNCHANGED <<flow, tmp, link, newc, wq, cq, prev, crashed>>

SaveOldCopyOpen ==  \* symlink: shutil.copyfile(dest, dest.old)
  /\ pc = "saveold" /\ link
  /\ old' = Empty /\ cq' = dest.data /\ pc' = "copy"
  /\ UNCHANGED <<flow, dest, tmp, link, newc, wq, prev, mutated, crashed>>

SaveOldCopyChunk ==
  /\ pc = "copy"
  /\ IF cq = <<>> THEN pc' = "open" /\ UNCHANGED <<old, cq>>
                  ELSE old' = [old EXCEPT !.data = Append(@, Head(cq))] /\ cq' = Tail(cq) /\ pc' = pc
  /\ UNCHANGED <<flow, dest, tmp, link, newc, wq, prev, mutated, crashed>>

\* ---- open(dest, "w") and the write
OpenW ==
  /\ pc = "open" /\ dest' = Empty /\ mutated' = TRUE /\ wq' = newc /\ pc' = "write"
  /\ UNCHANGED <<flow, old, tmp, link, newc, cq, prev, crashed>>

WriteChunk ==
  /\ pc = "write"
  /\ IF wq = <<>> THEN pc' = (IF flow = "gen" THEN "rmtmp" ELSE "done") /\ UNCHANGED <<dest, wq>>
                  ELSE dest' = [dest EXCEPT !.data = Append(@, Head(wq))] /\ wq' = Tail(wq) /\ pc' = pc
  /\ UNCHANGED <<flow, old, tmp, link, newc, cq, prev, mutated, crashed>>

RemoveTmp ==
  /\ pc = "rmtmp" /\ tmp' = NoFile /\ pc' = "done"
  /\ UNCHANGED <<flow, dest, old, link, newc, wq, cq, prev, mutated, crashed>>

\* ---- the process dies instead of the pending operation; a write may be torn
Crash ==
  /\ pc \notin {"start", "done", "dead", "cmp"}
  /\ pc' = "dead" /\ crashed' = TRUE
  /\ \/ UNCHANGED <<dest, old, tmp>>
     \/ /\ pc = "write" /\ wq # <<>>
        /\ dest' = [dest EXCEPT !.data = Append(@, <<Head(wq)[1], Head(wq)[2], "torn">>)]
        /\ UNCHANGED <<old, tmp>>
     \/ /\ pc = "copy" /\ cq # <<>>
        /\ old' = [old EXCEPT !.data = Append(@, <<Head(cq)[1], Head(cq)[2], "torn">>)]
        /\ UNCHANGED <<dest, tmp>>
  /\ UNCHANGED <<flow, link, newc, wq, cq, prev, mutated>>

Next == Start \/ TmpWrite \/ Compare \/ SaveOldReplace \/ SaveOldCopyOpen \/ SaveOldCopyChunk
        \/ OpenW \/ WriteChunk \/ RemoveTmp \/ Crash

Spec == Init /\ [][Next]_vars

----------------------------------------------------------------------------
\* C13, second sentence: with backup enabled over an existing file, at every point where the
\* process may die the destination is the complete new configuration or complete previous one,
\* or <file>.old holds the complete previous one.
NeverBothLostP(d, o, p, n) ==
  p.ex => (d = File(n) \/ d = p \/ o = p)
NeverBothLost == flow = "cfg" => NeverBothLostP(dest, old, prev, newc)

\* C13, first sentence: regenerating unchanged output leaves the destination untouched.
UnchangedUntouched == (prev.ex /\ prev.data = newc) => ~mutated

\* functional: a completed generation leaves the new contents; a backup was made when needed
Completed  == pc = "done" => dest = File(newc)
BackupMade == (flow = "cfg" /\ pc = "done" /\ prev.ex /\ prev.data # newc) => old = prev
TmpGone    == pc = "done" => ~tmp.ex
=============================================================================

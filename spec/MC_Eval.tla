------------------------------ MODULE MC_Eval ------------------------------
(***************************************************************************)
(* Stateless use of KEval: every (program, configuration) pair of the      *)
(* batch named by EVAL_DATA is one initial state.  Configurations are      *)
(* enumerated by TLC (mixed-radix index over the candidate user values of  *)
(* each option / choice); the values observed on the real implementation   *)
(* for the same index are part of the batch and are compared with the      *)
(* specification's values (reporter invariant: prints, never fails), and   *)
(* the property invariants are checked on the specification's values.      *)
(***************************************************************************)
EXTENDS Naturals, Integers, Sequences, FiniteSets, SequencesExt, TLC, Json, IOUtils

Data == JsonDeserialize(IOEnv.EVAL_DATA)
Tab  == Data.tab
McNum10 == Tab.num10
McNum16 == Tab.num16
McNumC  == Tab.numc
McDecStr == Tab.decstr
McHexStr == Tab.hexstr
McStrRank == Tab.rank

\* (substitution by INSTANCE, not in the .cfg: TLC re-evaluates JSON-derived definitions on every
\* use when they are substituted for constants in the configuration file)
INSTANCE KStore WITH Num10 <- McNum10, Num16 <- McNum16, NumC <- McNumC,
                    DecStr <- McDecStr, HexStr <- McHexStr, StrRank <- McStrRank,
                    NumF <- Tab.numf, NormF <- Tab.normf, FCanon <- Tab.fcanon, HexPfx <- Tab.hexpfx

Progs == Data.progs
NT    == Len(Progs)

RECURSIVE ProdFrom(_, _)
ProdFrom(vs, k) == IF k > Len(vs) THEN 1 ELSE Len(vs[k].cands) * ProdFrom(vs, k + 1)
Total(t) == ProdFrom(Progs[t].vars, 1)
PickOf(vs, idx, k) == vs[k].cands[(((idx - 1) \div ProdFrom(vs, k + 1)) % Len(vs[k].cands)) + 1]

\* x: the index of program t (Index(Flatten(prog))), computed once per program in Init and
\* carried along (TLC does not cache it as a constant); hidden from fingerprints by the VIEW
VARIABLES t, i, x
vars == <<t, i, x>>
View == <<t, i>>

X == x
VarIdx(vs, n, kind) == {k \in 1..Len(vs) : vs[k].n = n /\ vs[k].kind = kind}
UOf(tt, idx) ==
  LET vs == Progs[tt].vars
      ns == x.syms IN
  [n \in {ns[k] : k \in 1..Len(ns)} |->
     LET ks == VarIdx(vs, n, "sym")
         raw == IF ks = {} THEN NoVal ELSE PickOf(vs, idx, CHOOSE k \in ks : TRUE)
         ty == x.s[n].type
     IN \* a value that is not of the option's type is refused by set_value / ignored by the loader
        IF raw = NoVal THEN NoVal ELSE IF ValidFor(ty, raw) THEN Norm(ty, raw) ELSE NoVal]
POf(tt, idx) ==
  LET vs == Progs[tt].vars
      cs == x.chs IN
  [c \in {cs[k] : k \in 1..Len(cs)} |->
     LET ks == VarIdx(vs, c, "choice") IN IF ks = {} THEN NoVal ELSE PickOf(vs, idx, CHOOSE k \in ks : TRUE)]
U == UOf(t, i)
P == POf(t, i)
Ord == Progs[t].ord

\* one initial state per program (i = 0: nothing to check); its successors are the
\* configurations, so that programs are spread over TLC's workers
Init == t \in 1..NT /\ i = 0 /\ x = Index(Flatten(Progs[t].prog))
Next == i = 0 /\ t' = t /\ i' \in 1..Total(t) /\ x' = x
Spec == Init /\ [][Next]_vars

----------------------------------------------------------------------------
\* conformance reporter: first differing observation of this configuration
Obs == Progs[t].obs[i]
Mismatch(A) ==
  LET V == Valuation(X, A)
      bad == {k \in 1..Len(V) : V[k].val # Obs[k][1] \/ V[k].vis # Obs[k][2]
                                \/ V[k].asg # Obs[k][3] \/ V[k].line # Obs[k][4]}
  IN IF bad = {} THEN <<>>
     ELSE LET k == CHOOSE b1 \in bad : \A b2 \in bad : b1 <= b2
          IN <<V[k].name, <<V[k].val, V[k].vis, V[k].asg, V[k].line>>, Obs[k]>>
SelMismatch(A) ==
  LET S == Selections(X, A)
      O == Progs[t].sel[i]
      bad == {k \in 1..Len(S) : S[k].sel # O[k]}
  IN IF bad = {} THEN <<>>
     ELSE LET k == CHOOSE b1 \in bad : TRUE IN <<S[k].id, S[k].sel, O[k]>>
ReportP(A) ==
  LET m == Mismatch(A)
      s == SelMismatch(A) IN
  /\ (m = <<>> \/ PrintT(<<"M", t, i, m>>))
  /\ (s = <<>> \/ PrintT(<<"S", t, i, s>>))

----------------------------------------------------------------------------
(* C01: a user value on an option whose prompt is not visible, and a pick  *)
(* of a member that is not visible, have no effect on any value or line.   *)
HiddenUserInertP(A) ==
  LET base == Valuation(X, A) IN
  /\ \A k \in 1..Len(X.syms) :
        LET n == X.syms[k] IN
        (U[n] # NoVal /\ A.core[n].vis = 0)
          => Valuation(X, Eval(X, Ord, [U EXCEPT ![n] = NoVal], P)) = base
  /\ \A c \in DOMAIN P :
        (P[c] # NoVal /\ A.core[P[c]].vis = 0)
          => Valuation(X, Eval(X, Ord, U, [P EXCEPT ![c] = NoVal])) = base

(* C05: exactly one member of a visible choice with a visible member is y, *)
(* none of an invisible choice; it is the member the selection rule names. *)
ExactlyOneP(A) ==
  \A k \in 1..Len(X.chs) :
    LET c == X.chs[k]
        ms == X.c[c].members
        ys == {j \in 1..Len(ms) : A.core[ms[j]].val = "y"}
        anyVis == \E j \in 1..Len(ms) : A.core[ms[j]].vis = 2
    IN /\ (A.mode[c] = 2 /\ anyVis) => Cardinality(ys) = 1
       /\ A.mode[c] # 2 => ys = {}
       /\ \A j \in ys : ms[j] = A.sel[c]

(* C06: every value is well-formed for its type and inside its active range *)
WellTypedP(A) ==
  \A k \in 1..Len(X.syms) :
    LET n == X.syms[k]
        ty == X.s[n].type
        v == A.core[n].val
        rs == X.s[n].ranges
        ri == FirstTrue(X, A, rs) IN
    /\ ty = "bool" => v \in {"y", "n"}
    /\ ty \in {"int", "hex", "float"} => (v = "" \/ IsNum(ty, v))
    /\ ty = "hex" /\ v # "" => NumOf(ty, v) >= 0
    /\ (ty \in {"int", "hex", "float"} /\ ri # 0 /\ v # "") =>
         LET lo == NumOr0(ty, AtomStr(X, A, rs[ri].lo))
             hi == NumOr0(ty, AtomStr(X, A, rs[ri].hi))
         IN lo <= hi => (lo <= NumOf(ty, v) /\ NumOf(ty, v) <= hi)

(* C06: the generators render the option's value consistently.  Obs outs[k] =       *)
(* <<header number, header has 0x, cmake number, cmake has 0x, json number>> as read *)
(* by the harness's format readers (Absent / Unparsable codes); floats as ranks.    *)
AbsentN == 0 - 999999999
OutsP(A) ==
  \/ ~Progs[t].has_outs
  \/ \A k \in 1..Len(X.syms) :
       LET n == X.syms[k]
           ty == X.s[n].type
           c == A.core[n]
           o == Progs[t].outs[i][k] IN
       (ty \in {"int", "hex", "float"} /\ c.written /\ c.val # "" /\ IsNum(ty, c.val)) =>
          /\ o[1] = NumOf(ty, c.val) /\ o[3] = NumOf(ty, c.val) /\ o[5] = NumOf(ty, c.val)
          /\ ty = "hex" => (o[2] = 1 /\ o[4] = 1)

Cur == Eval(X, Ord, U, P)
Report          == i = 0 \/ ReportP(Cur)
HiddenUserInert == i = 0 \/ HiddenUserInertP(Cur)
ExactlyOne      == i = 0 \/ ExactlyOneP(Cur)
WellTyped       == i = 0 \/ WellTypedP(Cur)
\* the same four with one evaluation of the configuration; prints which clause fails
All == i = 0 \/ LET a == Cur IN
         /\ ReportP(a)
         /\ (HiddenUserInertP(a) \/ (PrintT(<<"F", "HiddenUserInert", t, i>>) /\ FALSE))
         /\ (ExactlyOneP(a) \/ (PrintT(<<"F", "ExactlyOne", t, i>>) /\ FALSE))
         /\ (WellTypedP(a) \/ (PrintT(<<"F", "WellTyped", t, i>>) /\ FALSE))
         /\ (OutsP(a) \/ PrintT(<<"O", t, i, Progs[t].outs[i]>>))
=============================================================================

------------------------------- MODULE DocFold -------------------------------
(***************************************************************************)
(* Documentation generation (C20): which options count as fixed for a      *)
(* target, how conditions are folded, and what the folding must preserve.  *)
(*                                                                         *)
(* Const(n): the user cannot change n for this target (target symbols,     *)
(* undefined names, options force-selected by fixed sources, promptless or *)
(* target-hidden options whose defaults only mention fixed options).       *)
(* Fold(e): fold fixed bool options to y / n, relations over fixed operands *)
(* to their truth value, then simplify AND / OR / NOT with constants.      *)
(* FoldSound: in every configuration the user can reach, Fold(e) and e have *)
(* the same truth value.                                                   *)
(***************************************************************************)
EXTENDS Naturals, Integers, Sequences, FiniteSets, SequencesExt, TLC

CONSTANTS Num10, Num16, NumC, DecStr, HexStr, StrRank, NumF, NormF, FCanon, HexPfx
INSTANCE KEval

CY == <<"y">>
CN == <<"n">>
IsY(e) == e[1] = "y"
IsN(e) == e[1] = "n"

RelOps == {"=", "!=", "<", "<=", ">", ">="}

\* Const and Min are mutually recursive; `fuel` bounds the recursion on (acyclic) programs.
\* X: Index; A0: the evaluation with no user values (fixed options have their value there);
\* Tg: names that are target symbols.
RECURSIVE ConstN(_, _, _, _, _), ConstE(_, _, _, _, _), Fold(_, _, _, _, _)

RevDepExpr(X, n) ==   \* OR over selects of (source && condition)
  LET rs == X.s[n].selects
  IN FoldLeft(LAMBDA acc, r : <<"||", acc, <<"&&", <<"s", r.src>>, r.e.c>>>>, CN, rs)

ReachExpr(X, n) ==    \* OR over imply, set and set default entries aimed at n of (source && condition)
  LET rs == X.s[n].implies \o X.s[n].sets \o X.s[n].wsets
  IN FoldLeft(LAMBDA acc, r : <<"||", acc, <<"&&", <<"s", r.src>>, r.e.c>>>>, CN, rs)

DocVisible(X, A0, Tg, n, fuel) ==   \* some prompt of n is reachable for this target
  \E k \in 1..Len(X.s[n].ctx) : ~IsN(Fold(X, A0, Tg, X.s[n].ctx[k], fuel))

ConstN(X, A0, Tg, n, fuel) ==
  IF n \in Tg THEN TRUE
  ELSE IF n \notin DOMAIN X.s THEN TRUE          \* referenced but never defined: a hard n
  ELSE IF fuel = 0 THEN FALSE
  ELSE IF IsY(Fold(X, A0, Tg, RevDepExpr(X, n), fuel - 1)) THEN TRUE
  ELSE IF X.s[n].ctx # <<>> /\ DocVisible(X, A0, Tg, n, fuel - 1) THEN FALSE
  ELSE /\ ConstE(X, A0, Tg, RevDepExpr(X, n), fuel - 1)
       /\ ConstE(X, A0, Tg, ReachExpr(X, n), fuel - 1)      \* a user option may reach it through imply / set / set default
       /\ \A k \in 1..Len(X.s[n].defaults) :
            /\ ConstE(X, A0, Tg, X.s[n].defaults[k].c, fuel - 1)
            /\ ConstE(X, A0, Tg, X.s[n].defaults[k].v, fuel - 1)

ConstE(X, A0, Tg, e, fuel) ==
  LET op == e[1] IN
  CASE op \in {"y", "n", "c"} -> TRUE
    [] op = "s" -> ConstN(X, A0, Tg, e[2], fuel)
    [] op = "ch" -> FALSE
    [] op = "!" -> ConstE(X, A0, Tg, e[2], fuel)
    [] OTHER -> ConstE(X, A0, Tg, e[2], fuel) /\ ConstE(X, A0, Tg, e[3], fuel)

Truth(X, A0, e) == IF EvalE(X, A0, e) = 2 THEN CY ELSE CN

Fold(X, A0, Tg, e, fuel) ==
  LET op == e[1] IN
  CASE op \in {"y", "n"} -> e
    [] op = "c" -> e
    [] op = "ch" -> e        \* the mode of a choice is never folded, not even for a choice nobody can open on this target
    [] op = "s" ->
         IF e[2] \notin DOMAIN X.s THEN (IF e[2] \in DOMAIN NumC THEN e ELSE CN)   \* undefined reference: n
         ELSE IF X.s[e[2]].type = "bool" /\ ConstN(X, A0, Tg, e[2], fuel) THEN Truth(X, A0, e)
         ELSE e
    [] op = "!" ->
         LET m == Fold(X, A0, Tg, e[2], fuel) IN
         IF IsN(m) THEN CY ELSE IF IsY(m) THEN CN ELSE <<"!", m>>
    [] OTHER ->
         IF op \in RelOps /\ ConstE(X, A0, Tg, e, fuel) THEN Truth(X, A0, e)
         ELSE LET a == Fold(X, A0, Tg, e[2], fuel)
                  b == Fold(X, A0, Tg, e[3], fuel) IN
              IF op = "&&" THEN (IF IsN(a) \/ IsN(b) THEN CN ELSE IF IsY(a) THEN b ELSE IF IsY(b) THEN a ELSE <<op, a, b>>)
              ELSE IF op = "||" THEN (IF IsY(a) \/ IsY(b) THEN CY ELSE IF IsN(a) THEN b ELSE IF IsN(b) THEN a ELSE <<op, a, b>>)
              ELSE <<op, a, b>>      \* a relation with a free operand is shown as it is

Fuel == 6
=============================================================================

SPECIFICATION Spec
CONSTANTS
  Flows <- McFlows
  MaxChunks = 3
INVARIANT NeverBothLost
INVARIANT UnchangedUntouched
INVARIANT Completed
INVARIANT BackupMade
INVARIANT TmpGone

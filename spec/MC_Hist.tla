------------------------------- MODULE MC_Hist -------------------------------
(***************************************************************************)
(* Sessions: all sequences (up to MaxLen) of the actions in each program's *)
(* action alphabet, explored by TLC over the state (U, P, valid) where     *)
(* `valid` abstracts which cached results exist (reads fill, changes       *)
(* clear).  Every transition is emitted once with a shortest witness       *)
(* history; the harness replays the histories on the real implementation.  *)
(* The C05 invariant is checked on every reachable state of the model.     *)
(***************************************************************************)
EXTENDS Naturals, Integers, Sequences, FiniteSets, SequencesExt, TLC, Json, IOUtils

Data == JsonDeserialize(IOEnv.HIST_DATA)
Tab  == Data.tab
INSTANCE KStore WITH Num10 <- Tab.num10, Num16 <- Tab.num16, NumC <- Tab.numc,
                     DecStr <- Tab.decstr, HexStr <- Tab.hexstr, StrRank <- Tab.rank,
                     NumF <- Tab.numf, NormF <- Tab.normf, FCanon <- Tab.fcanon, HexPfx <- Tab.hexpfx

Progs  == Data.progs
NT     == Len(Progs)
MaxLen == Data.maxlen

VARIABLES t, x, U, P, valid, hist
vars == <<t, x, U, P, valid, hist>>
View == <<t, U, P, valid>>

Acts  == Progs[t].acts
Files == Progs[t].files
Ren   == Progs[t].renames

Init ==
  /\ t \in 1..NT /\ x = Index(Flatten(Progs[t].prog))
  /\ U = [n \in DOMAIN x.s |-> NoVal] /\ P = [c \in DOMAIN x.c |-> NoVal]
  /\ valid = {} /\ hist = <<>>

Do(k) ==
  LET act == Acts[k]
      st  == ApplyAct(x, Ren, Files, [U |-> U, P |-> P], act) IN
  /\ U' = st.U /\ P' = st.P
  /\ valid' = IF IsChange(act) THEN {}
              ELSE IF act.a = "read" THEN valid \cup {act.n}
              ELSE DOMAIN x.s
  /\ hist' = Append(hist, k)
  /\ UNCHANGED <<t, x>>

Next == Len(hist) < MaxLen /\ \E k \in 1..Len(Acts) : Do(k)
Spec == Init /\ [][Next]_vars

Emit == PrintT(<<"H", t, hist'>>)

ExactlyOne ==
  LET A == Eval(x, Progs[t].ord, U, P) IN
  \A k \in 1..Len(x.chs) :
    LET c == x.chs[k]
        ms == x.c[c].members
        ys == {j \in 1..Len(ms) : A.core[ms[j]].val = "y"}
        anyVis == \E j \in 1..Len(ms) : A.core[ms[j]].vis = 2
    IN /\ (A.mode[c] = 2 /\ anyVis) => Cardinality(ys) = 1
       /\ A.mode[c] # 2 => ys = {}
       /\ \A j \in ys : ms[j] = A.sel[c]
=============================================================================

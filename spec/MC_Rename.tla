----------------------------- MODULE MC_Rename -----------------------------
(***************************************************************************)
(* C11: a deprecated name behaves exactly like its replacement.  Each case *)
(* is a program, a rename table (lines in file order, last mapping wins),  *)
(* and a hand-written sdkconfig mixing old and new names (possibly with a  *)
(* deprecated block).  The specification's Load on the file and on its     *)
(* rewriting to new names must agree (model level), and both must agree    *)
(* with what the real loader did with the two files.                       *)
(***************************************************************************)
EXTENDS Naturals, Integers, Sequences, FiniteSets, SequencesExt, TLC, Json, IOUtils

Data == JsonDeserialize(IOEnv.REN_DATA)
Tab  == Data.tab
INSTANCE KStore WITH Num10 <- Tab.num10, Num16 <- Tab.num16, NumC <- Tab.numc,
                     DecStr <- Tab.decstr, HexStr <- Tab.hexstr, StrRank <- Tab.rank,
                     NumF <- Tab.numf, NormF <- Tab.normf, FCanon <- Tab.fcanon, HexPfx <- Tab.hexpfx

Progs == Data.progs
VARIABLES t, i, x
vars == <<t, i, x>>
View == <<t, i>>
Init == t \in 1..Len(Progs) /\ i = 0 /\ x = Index(Flatten(Progs[t].prog))
Next == i = 0 /\ t' = t /\ x' = x /\ i' \in 1..Len(Progs[t].cases)
Spec == Init /\ [][Next]_vars

Lines == Progs[t].renames
LastIdx(old) == CHOOSE k \in 1..Len(Lines) : Lines[k][1] = old /\ \A j \in 1..Len(Lines) : Lines[j][1] = old => j <= k
R == [old \in {Lines[k][1] : k \in 1..Len(Lines)} |-> [new |-> Lines[LastIdx(old)][2], inv |-> Lines[LastIdx(old)][3]]]

Cs == Progs[t].cases[i]
Main(F) == SelectSeq(F, LAMBDA ln : ~ln.blk)     \* the deprecated block is skipped
Vals(A) == [k \in 1..Len(x.syms) |-> A.core[x.syms[k]].val]
\* missing-symbol diagnostics for names that are nobody's alias, or aliases of defined options
Relevant(ms) == SelectSeq(ms, LAMBDA m : m[1] \notin DOMAIN R \/ R[m[1]].new \in DOMAIN x.s)

Check ==
  LET F  == Cs.file
      L1 == Load(x, R, Main(F), TRUE, NoUser(x).U, NoUser(x).P)
      RW == Rewrite(x, R, Main(F))
      L2 == Load(x, <<>>, RW, TRUE, NoUser(x).U, NoUser(x).P)
      A1 == Eval(x, Progs[t].ord, L1.U, L1.P)
      A2 == Eval(x, Progs[t].ord, L2.U, L2.P)
      o  == Cs.obs
      say(tag, a, b) == PrintT(<<tag, t, i, a, b>>)
      rwt == [k \in 1..Len(RW) |-> <<RW[k].n, RW[k].v, RW[k].u>>]
  IN
  \* the harness rewrote the file the way the specification does
  /\ (rwt = Cs.rewritten \/ say("M-rewrite", rwt, Cs.rewritten))
  \* model level
  /\ ((L1.U = L2.U /\ L1.P = L2.P) \/ say("D-AliasEquiv", L1, L2))
  /\ (\A k \in 1..Len(L1.missing) : L1.missing[k][1] \notin DOMAIN R \/ R[L1.missing[k][1]].new \notin DOMAIN x.s)
     \/ say("D-NoUnknownAlias", L1.missing, <<>>)
  \* conformance
  /\ (Vals(A1) = o.vals \/ say("R-load", Vals(A1), o.vals))
  /\ (Vals(A2) = o.vals_rw \/ say("R-load-rewritten", Vals(A2), o.vals_rw))
  /\ (Relevant(L1.missing) = Relevant(o.missing) \/ say("R-missing", L1.missing, o.missing))
  \* the property on the observations
  /\ (o.vals = o.vals_rw \/ say("P-AliasEquiv", o.vals, o.vals_rw))
  /\ ((\A k \in 1..Len(o.missing) : o.missing[k][1] \notin DOMAIN R \/ R[o.missing[k][1]].new \notin DOMAIN x.s)
      \/ say("P-NoUnknownAlias", o.missing, <<>>))
  /\ (o.vals = o.vals_noblock \/ say("P-BlockIgnored", o.vals, o.vals_noblock))
  /\ (\A k \in 1..Len(o.evals) : o.evals[k][2] = o.evals[k][3]) \/ say("P-BlockEval", o.evals, <<>>)

All == i = 0 \/ Cs.err \/ Check
=============================================================================

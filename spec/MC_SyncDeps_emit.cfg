SPECIFICATION Spec
VIEW View
ACTION_CONSTRAINT Emit
CONSTANTS
  Cfgs <- McCfgs
  Names <- McNames
  Unq <- McUnq
  TornVals <- McTorn
  AtomicWrite <- McAtomic
  FlagVanished <- McFlagVanished
  MaxChanges <- McMaxChanges
  MaxCrashes <- McMaxCrashes
  MaxSyncs <- McMaxSyncs

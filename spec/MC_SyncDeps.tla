---------------------------- MODULE MC_SyncDeps ----------------------------
(* Model-checking instance of SyncDeps: constants come from the JSON file   *)
(* named by the environment variable SYNC_CFGS (written by the harness).    *)
EXTENDS SyncDeps, Json, IOUtils

Raw == JsonDeserialize(IOEnv.SYNC_CFGS)

McCfgs  == [i \in 1..Len(Raw.cfgs) |-> [Raw.cfgs[i] EXCEPT !.known = ToSet(@)]]
McNames == ToSet(Raw.names)
McTorn  == ToSet(Raw.torn)
McUnq == Raw.unq
McAtomic == Raw.atomic
McFlagVanished == Raw.flag_vanished
McMaxChanges == Raw.max_changes
McMaxCrashes == Raw.max_crashes
McMaxSyncs == Raw.max_syncs

\* every run that ends (completed or crashed) prints its command history once
Emit == (pc # "idle" /\ pc' = "idle") => PrintT(<<"H", hist'>>)
=============================================================================

----------------------------- MODULE MC_Outputs -----------------------------
(* C07: every (program + rename table, configuration) of the batch: what the *)
(* five formats must say (KOutputs) against what the format readers of the   *)
(* harness found in the files the real generators wrote.                     *)
EXTENDS Naturals, Integers, Sequences, FiniteSets, SequencesExt, TLC, Json, IOUtils

Data == JsonDeserialize(IOEnv.OUT_DATA)
Tab  == Data.tab
INSTANCE KOutputs WITH Num10 <- Tab.num10, Num16 <- Tab.num16, NumC <- Tab.numc,
                       DecStr <- Tab.decstr, HexStr <- Tab.hexstr, StrRank <- Tab.rank,
                       NumF <- Tab.numf, NormF <- Tab.normf, FCanon <- Tab.fcanon, HexPfx <- Tab.hexpfx
KS == INSTANCE KStore WITH Num10 <- Tab.num10, Num16 <- Tab.num16, NumC <- Tab.numc,
                       DecStr <- Tab.decstr, HexStr <- Tab.hexstr, StrRank <- Tab.rank,
                       NumF <- Tab.numf, NormF <- Tab.normf, FCanon <- Tab.fcanon, HexPfx <- Tab.hexpfx

Progs == Data.progs
NT    == Len(Progs)
RECURSIVE ProdFrom(_, _)
ProdFrom(vs, k) == IF k > Len(vs) THEN 1 ELSE Len(vs[k].cands) * ProdFrom(vs, k + 1)
Total(t) == ProdFrom(Progs[t].vars, 1)
PickOf(vs, idx, k) == vs[k].cands[(((idx - 1) \div ProdFrom(vs, k + 1)) % Len(vs[k].cands)) + 1]

VARIABLES t, i, x
vars == <<t, i, x>>
View == <<t, i>>
VarIdx(vs, n, kind) == {k \in 1..Len(vs) : vs[k].n = n /\ vs[k].kind = kind}
P0 == LET vs == Progs[t].vars IN
      [c \in {x.chs[k] : k \in 1..Len(x.chs)} |->
         LET ks == VarIdx(vs, c, "choice") IN IF ks = {} THEN NoVal ELSE PickOf(vs, i, CHOOSE k \in ks : TRUE)]
U0 == LET vs == Progs[t].vars IN
      [n \in {x.syms[k] : k \in 1..Len(x.syms)} |->
         LET ks == VarIdx(vs, n, "sym") IN
         IF ks # {} THEN
            LET raw == PickOf(vs, i, CHOOSE k \in ks : TRUE)
                ty == x.s[n].type
            IN IF raw = NoVal THEN NoVal ELSE IF KS!ValidFor(ty, raw) THEN Norm(ty, raw) ELSE NoVal
         ELSE NoVal]

Init == t \in 1..NT /\ i = 0 /\ x = Index(Flatten(Progs[t].prog))
Next == i = 0 /\ t' = t /\ i' \in 1..Total(t) /\ x' = x
Spec == Init /\ [][Next]_vars

Obs == Progs[t].outs[i]
Check ==
  LET A == Eval(x, Progs[t].ord, U0, P0)
      E == Expected(x, A)
      EA == ExpectedAliases(x, A, Progs[t].renames)
      OA == ToSet(Obs.aliases)
      say(tag, a, b) == PrintT(<<tag, t, i, a, b>>)
  IN
  /\ (E = Obs.opts \/ say("R-formats", E, Obs.opts))
  /\ (EA = OA \/ say("R-aliases", EA \ OA, OA \ EA))
  \* the property on the observations alone: the formats agree with one another
  /\ (\A k \in 1..Len(Obs.opts) :
        LET o == Obs.opts[k]
            b == x.s[x.syms[k]].type = "bool" IN
        /\ o[3] = o[1] /\ o[4] = o[1] /\ o[5] = o[2]
        /\ (IF b THEN o[2] = (IF o[1] = "y" THEN "y" ELSE "n") ELSE o[2] = o[1]))
     \/ say("P-SameValue", Obs.opts, <<>>)
  /\ (\A a \in OA : (a[2] = a[4]) /\ (a[3] = (IF a[2] = Absent /\ a[3] = "n" THEN "n" ELSE a[2])))
     \/ say("P-AliasAgree", OA, {})

All == i = 0 \/ Check
=============================================================================

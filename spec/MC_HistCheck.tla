---------------------------- MODULE MC_HistCheck ----------------------------
(***************************************************************************)
(* Validation of sessions recorded from the real implementation: for each  *)
(* recorded history the specification's state is obtained by folding       *)
(* ApplyAct over the same actions; the values / visibilities / assignable  *)
(* sets / lines / selections observed after the last action are compared   *)
(* with Eval, and the property clauses that relate observations to each    *)
(* other (C03) are evaluated on the observations.                          *)
(***************************************************************************)
EXTENDS Naturals, Integers, Sequences, FiniteSets, SequencesExt, TLC, Json, IOUtils

Data == JsonDeserialize(IOEnv.HIST_DATA)
Tab  == Data.tab
INSTANCE KStore WITH Num10 <- Tab.num10, Num16 <- Tab.num16, NumC <- Tab.numc,
                     DecStr <- Tab.decstr, HexStr <- Tab.hexstr, StrRank <- Tab.rank,
                     NumF <- Tab.numf, NormF <- Tab.normf, FCanon <- Tab.fcanon, HexPfx <- Tab.hexpfx

Progs  == Data.progs
NT     == Len(Progs)

VARIABLES t, i, x
vars == <<t, i, x>>
View == <<t, i>>
Init == t \in 1..NT /\ i = 0 /\ x = Index(Flatten(Progs[t].prog))
Next == i = 0 /\ t' = t /\ x' = x /\ i' \in 1..Len(Progs[t].traces)
Spec == Init /\ [][Next]_vars

Tr == Progs[t].traces[i]
Final ==
  FoldLeft(LAMBDA st, k : ApplyAct(x, Progs[t].renames, Progs[t].files, st, Progs[t].acts[k]),
           NoUser(x), Tr.h)

Check ==
  LET st == Final
      A  == Eval(x, Progs[t].ord, st.U, st.P)
      V  == Valuation(x, A)
      S  == Selections(x, A)
      exp == [k \in 1..Len(V) |-> <<V[k].val, V[k].vis, V[k].asg, V[k].line>>]
      sel == [k \in 1..Len(S) |-> S[k].sel]
      say(tag, a, b) == PrintT(<<tag, t, i, a, b>>)
  IN
  /\ (exp = Tr.obs \/ say("R-values", exp, Tr.obs))
  /\ (sel = Tr.sel \/ say("R-selection", sel, Tr.sel))
  /\ (Tr.obs_inv = Tr.obs \/ say("P-RecomputeEq", Tr.obs, Tr.obs_inv))
  /\ (Tr.obs_fresh = <<>> \/ Tr.obs_fresh = Tr.obs \/ say("P-FreshEq", Tr.obs, Tr.obs_fresh))
  /\ (Tr.obs_again = Tr.obs \/ say("P-ReadInert", Tr.obs, Tr.obs_again))
  /\ (Tr.outs_ok \/ say("P-OutputsAgree", Tr.outs, <<>>))
  \* the loads of these sessions (hand-written files without default-marked entries, replacing loads of files the
  \* tool wrote for the same program) inject nothing (KStore.LoadP: no mismatch): the program's defaults are intact
  /\ (Tr.inj = <<>> \/ say("R-NoInjection", <<>>, Tr.inj))

All == i = 0 \/ Tr.err \/ Check
=============================================================================

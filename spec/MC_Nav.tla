-------------------------------- MODULE MC_Nav --------------------------------
(* C17, exploration: all event sequences up to MaxLen; SelValid and NoRaise on *)
(* every state; histories emitted for replay.                                  *)
EXTENDS Naturals, Integers, Sequences, FiniteSets, SequencesExt, TLC, Json, IOUtils

Data == JsonDeserialize(IOEnv.NAV_DATA)
Tab  == Data.tab
INSTANCE KNav WITH Num10 <- Tab.num10, Num16 <- Tab.num16, NumC <- Tab.numc,
                   DecStr <- Tab.decstr, HexStr <- Tab.hexstr, StrRank <- Tab.rank,
                   NumF <- Tab.numf, NormF <- Tab.normf, FCanon <- Tab.fcanon, HexPfx <- Tab.hexpfx

Progs  == Data.progs
MaxLen == Data.maxlen
VARIABLES t, x, tree, st, nav, hist
vars == <<t, x, tree, st, nav, hist>>
View == <<t, st.U, st.P, nav>>
Pg == Progs[t]

Init ==
  /\ t \in 1..Len(Progs)
  /\ x = Index(Flatten(Progs[t].prog))
  /\ tree = MkTree(Progs[t].prog, Progs[t].struct)
  /\ st = Start(x, Progs[t].ord, <<>>, <<"lines", Progs[t].init>>)
  /\ nav = StartNav(x, Progs[t].ord, tree, st)
  /\ hist = <<>>

Do(k) ==
  LET r == Event(x, Pg.ord, tree, <<>>, Pg.files, Pg.menus, st, nav, Pg.events[k]) IN
  /\ nav.err = ""
  /\ st' = r.st /\ nav' = r.nav /\ hist' = Append(hist, k)
  /\ UNCHANGED <<t, x, tree>>
Next == Len(hist) < MaxLen /\ \E k \in 1..Len(Pg.events) : Do(k)
Spec == Init /\ [][Next]_vars

Emit == PrintT(<<"H", t, hist'>>)
SelOK == SelValid(nav)
\* NoRaise is reported, not enforced: the harness replays histories that end in err
RaiseSeen == nav.err = "" \/ PrintT(<<"E", t, hist, nav.err>>)
=============================================================================

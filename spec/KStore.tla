------------------------------- MODULE KStore -------------------------------
(***************************************************************************)
(* The configuration session: user values U, choice picks P, and what the  *)
(* tool writes to / reads from sdkconfig files.                            *)
(*                                                                         *)
(* An sdkconfig file is abstracted to its sequence of assignment lines     *)
(*   [n |-> name, v |-> value, d |-> TRUE iff preceded by `# default:`,    *)
(*    u |-> TRUE iff written as `# CONFIG_X is not set` (then v = "n")]    *)
(* (comments, menu headers and blank lines carry no information).          *)
(*                                                                         *)
(* Render      : Kconfig._config_contents()   (tree order, marker rule)    *)
(* MinLines    : Kconfig._min_config_contents()/_is_min_config_sym()       *)
(* Load        : Kconfig._load_config() — immediate user values, choice    *)
(*               members deferred (last y wins), default-marked entries    *)
(*               never become user values, replace semantics, deprecated   *)
(*               names resolved through the rename table                   *)
(* SetSym/Unset/Reset : Symbol.set_value / unset_value / _restore_default  *)
(***************************************************************************)
EXTENDS Naturals, Integers, Sequences, FiniteSets, SequencesExt, TLC

CONSTANTS Num10, Num16, NumC, DecStr, HexStr, StrRank, NumF, NormF, FCanon, HexPfx

INSTANCE KEval

----------------------------------------------------------------------------
(* Writing.                                                                *)
Render(X, A, U, P) ==
  LET ws == SelectSeq(X.syms, LAMBDA n : A.core[n].written)
  IN [k \in 1..Len(ws) |-> [n |-> ws[k], v |-> A.core[ws[k]].val, d |-> Marked(X, A, U, P, ws[k]),
                             u |-> X.s[ws[k]].type = "bool" /\ A.core[ws[k]].val = "n"]]

\* the value an option would get from its defaults alone (Symbol._str_default):
\* bool: first default whose condition holds, raised by select and imply; others: an enabled
\* `set default`, else the first default whose condition holds
StrDefault(X, A, n) ==
  LET S == X.s[n] IN
  IF S.type = "bool" THEN
    IF S.ch # "" THEN "n"
    ELSE LET ds == DefaultsOf(X, A, n)
             di == FirstTrue(X, A, ds)
             dv == IF di = 0 THEN 0 ELSE EvalE(X, A, ds[di].v)
         IN IF dv = 2 \/ RevOn(X, A, S.selects) # <<>> \/ (RevOn(X, A, S.implies) # <<>> /\ A.inj.s[n] = NoVal) THEN "y" ELSE "n"
  ELSE LET ds == DefaultsOf(X, A, n)
           di == FirstTrue(X, A, ds)
           ws == IF DirectDep(X, A, n) = 2 /\ A.inj.s[n] = NoVal THEN RevOn(X, A, S.wsets) ELSE <<>>
           wv == IF ws = <<>> THEN ""
                 ELSE IF S.type \in {"int", "hex"} THEN ws[1].e.v[2] ELSE AtomStr(X, A, ws[1].e.v)
       IN IF ws # <<>> /\ (S.type = "string" \/ wv # "") THEN wv   \* an enabled `set default` is what it falls back to
          ELSE IF di = 0 THEN "" ELSE AtomStr(X, A, ds[di].v)

\* the member a choice selects without looking at the user's pick
SelFromDefaults(X, A, c) ==
  LET ds == ChDefaultsOf(X, A, c)
      ms == X.c[c].members
      \* (as in KEval.SelOf: a default naming something that is not a member selects nothing)
      ok == {i \in 1..Len(ds) : (\E j \in 1..Len(ms) : ms[j] = ds[i].m)
                                 /\ EvalE(X, A, ds[i].c) = 2 /\ MemberVis(X, A, ds[i].m) = 2}
      vm == {i \in 1..Len(ms) : MemberVis(X, A, ms[i]) = 2}
  IN IF ok # {} THEN ds[CHOOSE i \in ok : \A j \in ok : i <= j].m
     ELSE IF vm # {} THEN ms[CHOOSE i \in vm : \A j \in vm : i <= j]
     ELSE NoVal

InMin(X, A, n) ==
  LET S == X.s[n]
      c == A.core[n] IN
  /\ ~(S.ch = "" /\ (c.vis = 0 \/ (S.type = "bool" /\ RevOn(X, A, S.selects) # <<>>)))
  /\ c.val # StrDefault(X, A, n)
  /\ ~(S.ch # "" /\ c.val = "y" /\ SelFromDefaults(X, A, S.ch) = n)

MinLines(X, A, U, P) ==
  LET ws == SelectSeq(X.syms, LAMBDA n : InMin(X, A, n) /\ A.core[n].written)
  IN [k \in 1..Len(ws) |-> [n |-> ws[k], v |-> A.core[ws[k]].val, d |-> Marked(X, A, U, P, ws[k]),
                             u |-> X.s[ws[k]].type = "bool" /\ A.core[ws[k]].val = "n"]]

----------------------------------------------------------------------------
(* Edits.                                                                  *)
ValidFor(type, v) ==
  CASE type = "bool"   -> v \in {"y", "n"}
    [] type = "int"    -> v \in DOMAIN Num10
    [] type = "hex"    -> v \in DOMAIN Num16 /\ Num16[v] >= 0
    [] type = "string" -> TRUE
    [] type = "float"  -> v \in DOMAIN NumF
    [] OTHER -> FALSE

\* Symbol.set_value: [U, P]; an invalid value changes nothing
SetSym(X, U, P, n, v) ==
  IF ~ValidFor(X.s[n].type, v) THEN [U |-> U, P |-> P, ok |-> FALSE]
  ELSE [U |-> [U EXCEPT ![n] = Norm(X.s[n].type, v)],
        P |-> IF X.s[n].ch # "" /\ v = "y" THEN [P EXCEPT ![X.s[n].ch] = n] ELSE P,
        ok |-> TRUE]

UnsetSym(U, P, n) == [U |-> [U EXCEPT ![n] = NoVal], P |-> P]

\* _restore_default on an option: its user value goes; for a member, the pick of its choice
\* and the user values of all members go as well
ResetSym(X, U, P, n) ==
  LET c == X.s[n].ch IN
  IF c = "" THEN [U |-> [U EXCEPT ![n] = NoVal], P |-> P]
  ELSE [U |-> [m \in DOMAIN U |-> IF m \in DOMAIN X.s /\ X.s[m].ch = c THEN NoVal ELSE U[m]],
        P |-> [P EXCEPT ![c] = NoVal]]
ResetChoice(X, U, P, c) ==
  [U |-> [m \in DOMAIN U |-> IF X.s[m].ch = c THEN NoVal ELSE U[m]], P |-> [P EXCEPT ![c] = NoVal]]

----------------------------------------------------------------------------
(* Loading.  R: rename table, old name -> [new |-> name, inv |-> BOOLEAN]. *)
Resolve(X, R, ln) ==   \* the line after deprecated-name resolution, or "missing"
  IF ln.n \in DOMAIN X.s THEN [n |-> ln.n, v |-> ln.v, d |-> ln.d, ok |-> TRUE]
  ELSE IF ln.n \in DOMAIN R /\ R[ln.n].new \in DOMAIN X.s
    THEN LET t == X.s[R[ln.n].new].type
             \* (only y and n have an opposite: anything else stays the invalid value it is)
             v == IF R[ln.n].inv /\ t = "bool" /\ ln.v \in {"y", "n"} THEN (IF ln.v = "y" THEN "n" ELSE "y") ELSE ln.v
         IN [n |-> R[ln.n].new, v |-> v, d |-> FALSE, ok |-> TRUE]
    ELSE [n |-> ln.n, v |-> ln.v, d |-> ln.d, ok |-> FALSE]

LoadStep(X, R, acc, ln0) ==
  LET ln == Resolve(X, R, ln0) IN
  IF ~ln.ok THEN [acc EXCEPT !.missing = Append(@, <<ln.n, ln.v>>)]
  ELSE IF ln0.u /\ X.s[ln.n].type # "bool" THEN acc   \* `is not set` only means something for bools
  ELSE IF ~ValidFor(X.s[ln.n].type, ln.v) THEN acc
  ELSE IF ln.d THEN acc                       \* a default-marked entry is not a user value
  ELSE IF X.s[ln.n].ch # "" THEN [acc EXCEPT !.chq = Append(@, <<ln.n, ln.v>>)]
  ELSE [acc EXCEPT !.U = [@ EXCEPT ![ln.n] = Norm(X.s[ln.n].type, ln.v)], !.set = @ \cup {ln.n}]

MemberStep(X, acc, mv) ==
  LET m == mv[1]
      c == X.s[m].ch IN
  [acc EXCEPT !.U = [@ EXCEPT ![m] = mv[2]],
              !.P = IF mv[2] = "y" THEN [@ EXCEPT ![c] = m] ELSE @,
              !.set = @ \cup {m},
              !.chset = IF mv[2] = "y" THEN @ \cup {c} ELSE @]

Load(X, R, F, replace, U, P) ==
  LET a0 == [U |-> U, P |-> P, set |-> {}, chset |-> {}, chq |-> <<>>, missing |-> <<>>]
      a1 == FoldLeft(LAMBDA acc, ln : LoadStep(X, R, acc, ln), a0, F)
      a2 == FoldLeft(LAMBDA acc, mv : MemberStep(X, acc, mv), a1, a1.chq)
  IN IF replace
       THEN [U |-> [n \in DOMAIN a2.U |-> IF n \in a2.set THEN a2.U[n] ELSE NoVal],
             P |-> [c \in DOMAIN a2.P |-> IF c \in a2.chset THEN a2.P[c] ELSE NoVal],
             missing |-> a2.missing]
       ELSE [U |-> a2.U, P |-> a2.P, missing |-> a2.missing]

NoUser(X) == [U |-> [n \in DOMAIN X.s |-> NoVal], P |-> [c \in DOMAIN X.c |-> NoVal]]

\* C11: the same file with every deprecated name replaced, in place, by the equivalent
\* assignment to its replacement (bool values inverted for `!` renames)
RewriteLine(X, R, ln) ==
  IF ln.n \in DOMAIN X.s \/ ln.n \notin DOMAIN R \/ R[ln.n].new \notin DOMAIN X.s THEN ln
  ELSE LET r == Resolve(X, R, ln)
           isb == X.s[r.n].type = "bool"
       IN [n |-> r.n, v |-> r.v, d |-> FALSE, u |-> IF isb THEN r.v = "n" ELSE ln.u]
Rewrite(X, R, F) == [k \in 1..Len(F) |-> RewriteLine(X, R, F[k])]

----------------------------------------------------------------------------
(* Loading under a defaults policy (C08).  Default-marked entries of       *)
(* prompted options never become user values.  Each is compared, in        *)
(* dependency order, with the value the tree gives the option; on a        *)
(* mismatch the option is recorded, and under policy "sdkconfig" the       *)
(* stored value is injected as the option's only default (if it is valid   *)
(* for the type).  Policy "kconfig" leaves the tree's defaults alone.      *)
(* Entries of promptless options are ignored.  For a choice without a user *)
(* pick the visible default-marked member stored as y decides likewise.    *)
DefaultMarked(X, R, F) ==   \* resolved default-marked lines of prompted, defined options
  LET rs == [k \in 1..Len(F) |-> Resolve(X, R, F[k])]
  IN SelectSeq(rs, LAMBDA r : r.ok /\ r.d /\ X.s[r.n].prompts # <<>>
                               /\ (X.s[r.n].type = "bool" => r.v \in {"y", "n"}))
StoredOf(dm, n) == dm[CHOOSE k \in 1..Len(dm) : dm[k].n = n /\ \A j \in 1..Len(dm) : dm[j].n = n => j <= k].v

ResolveStep(X, ord, dm, policy, U, P, acc, o) ==
  LET names == {dm[k].n : k \in 1..Len(dm)} IN
  IF o[1] = "s" THEN
    LET n == o[2] IN
    IF n \notin names \/ X.s[n].ch # "" \/ U[n] # NoVal THEN acc
    ELSE LET A == EvalI(X, ord, U, P, acc.I)
             st == Norm(X.s[n].type, StoredOf(dm, n)) IN
         IF A.core[n].vis = 0 \/ A.core[n].val = st THEN acc
         ELSE [acc EXCEPT !.mism = @ \cup {n},
                          !.I = IF policy = "sdkconfig" /\ ValidFor(X.s[n].type, StoredOf(dm, n))
                                  THEN [@ EXCEPT !.s[n] = st] ELSE @]
  ELSE
    LET c == o[2]
        ms == X.c[c].members
        marked == {m \in names : X.s[m].ch = c} IN
    IF marked = {} \/ P[c] # NoVal THEN acc
    ELSE LET A == EvalI(X, ord, U, P, acc.I)
             ys == SelectSeq(ms, LAMBDA m : m \in marked /\ StoredOf(dm, m) = "y" /\ MemberVis(X, A, m) = 2)
             cur(m) == IF MemberVis(X, A, m) = 2 /\ SelOf(X, A, P, c) = m THEN "y" ELSE "n"
             diff == {m \in marked : cur(m) # StoredOf(dm, m)}
         IN IF A.mode[c] # 2 THEN acc
            ELSE IF Len(ys) = 1 THEN
                   (IF diff = {} THEN acc
                    ELSE [acc EXCEPT !.mism = @ \cup {c},
                                     !.I = IF policy = "sdkconfig" THEN [@ EXCEPT !.c[c] = ys[1]] ELSE @])
            ELSE IF Len(ys) > 1 THEN
                   [acc EXCEPT !.I = IF policy = "sdkconfig" THEN [@ EXCEPT !.c[c] = ys[Len(ys)]] ELSE @]
            ELSE acc

\* a replacing load of a main sdkconfig into a session whose injected defaults so far are I0
\* (injections made by earlier loads stay in force for the rest of the session)
LoadPFrom(X, ord, R, F, policy, I0) ==
  LET base == Load(X, R, F, TRUE, NoUser(X).U, NoUser(X).P)
      dm == DefaultMarked(X, R, F)
      \* A.mode of a choice is only known once the choice has been evaluated: resolution of a
      \* choice evaluates the whole configuration under the injections made so far
      r == FoldLeft(LAMBDA acc, o : ResolveStep(X, ord, dm, policy, base.U, base.P, acc, o),
                    [I |-> I0, mism |-> {}], ord)
  IN [U |-> base.U, P |-> base.P, I |-> r.I, missing |-> base.missing, mism |-> r.mism]
LoadP(X, ord, R, F, policy) == LoadPFrom(X, ord, R, F, policy, NoInj(X))   \* into a fresh session

StripDefaults(F) == SelectSeq(F, LAMBDA ln : ~ln.d)

----------------------------------------------------------------------------
(* kconfgen main(): every --defaults file is merged in turn (a right-hand  *)
(* side left empty means n there), then the sdkconfig, if it exists, is    *)
(* merged on top; each merge resolves its own default-marked entries under *)
(* the policy, against the user values gathered so far; injections made by *)
(* one merge stay in force.  The outputs are written from the result.      *)
FixEmpty(X, F) ==   \* `CONFIG_X=` (nothing after the sign, not a quoted string) is read as `CONFIG_X=n`
  [k \in 1..Len(F) |->
     IF F[k].v = "" /\ ~F[k].u /\ (F[k].n \notin DOMAIN X.s \/ X.s[F[k].n].type # "string")
       THEN [F[k] EXCEPT !.v = "n"] ELSE F[k]]

MergeP(X, ord, R, F, policy, st) ==   \* st = [U, P, I]
  LET base == Load(X, R, F, FALSE, st.U, st.P)
      dm == DefaultMarked(X, R, F)
      r == FoldLeft(LAMBDA acc, o : ResolveStep(X, ord, dm, policy, base.U, base.P, acc, o),
                    [I |-> st.I, mism |-> {}], ord)
  IN [U |-> base.U, P |-> base.P, I |-> r.I, mism |-> r.mism, missing |-> base.missing]

GenRun(X, ord, R, Ds, sdk, policy) ==   \* Ds: sequence of defaults files; sdk = [ex, lines]
  LET s0 == [U |-> NoUser(X).U, P |-> NoUser(X).P, I |-> NoInj(X), mism |-> {}]
      step(st, F) == LET m == MergeP(X, ord, R, FixEmpty(X, F), policy, st)
                     IN [U |-> m.U, P |-> m.P, I |-> m.I, mism |-> {}]
      s1 == FoldLeft(step, s0, Ds)
  IN IF sdk.ex THEN LET m == MergeP(X, ord, R, sdk.lines, policy, s1)
                    IN [U |-> m.U, P |-> m.P, I |-> m.I, mism |-> m.mism]
     ELSE s1

----------------------------------------------------------------------------
(* One step of a session.  st = [U, P]; act is a record:                   *)
(*   [a |-> "set", n, v]  [a |-> "unset", n]  [a |-> "reset", n]           *)
(*   [a |-> "resetch", c] [a |-> "unsetch", c]                             *)
(*   [a |-> "load", f, replace]   (f indexes Files)                        *)
(*   [a |-> "read", n] [a |-> "readall"]   (no effect on U, P)             *)
ApplyAct(X, R, Files, st, act) ==
  CASE act.a = "set"     -> LET r == SetSym(X, st.U, st.P, act.n, act.v) IN [U |-> r.U, P |-> r.P]
    [] act.a = "unset"   -> UnsetSym(st.U, st.P, act.n)
    [] act.a = "reset"   -> ResetSym(X, st.U, st.P, act.n)
    [] act.a = "resetch" -> ResetChoice(X, st.U, st.P, act.c)
    [] act.a = "unsetch" -> [U |-> st.U, P |-> [st.P EXCEPT ![act.c] = NoVal]]
    [] act.a = "load"    -> LET r == Load(X, R, Files[act.f], act.replace, st.U, st.P) IN [U |-> r.U, P |-> r.P]
    [] OTHER             -> st

IsChange(act) == act.a \notin {"read", "readall"}
=============================================================================

--------------------------- MODULE MC_Menu16Check ---------------------------
(* C16, validation of sessions recorded from the real MenuConfigState.       *)
EXTENDS Naturals, Integers, Sequences, FiniteSets, SequencesExt, TLC, Json, IOUtils

Data == JsonDeserialize(IOEnv.MENU_DATA)
Tab  == Data.tab
INSTANCE KMenu WITH Num10 <- Tab.num10, Num16 <- Tab.num16, NumC <- Tab.numc,
                    DecStr <- Tab.decstr, HexStr <- Tab.hexstr, StrRank <- Tab.rank,
                    NumF <- Tab.numf, NormF <- Tab.normf, FCanon <- Tab.fcanon, HexPfx <- Tab.hexpfx

Progs == Data.progs
VARIABLES t, i, x
vars == <<t, i, x>>
View == <<t, i>>
Init == t \in 1..Len(Progs) /\ i = 0 /\ x = Index(Flatten(Progs[t].prog))
Next == i = 0 /\ t' = t /\ x' = x /\ i' \in 1..Len(Progs[t].traces)
Spec == Init /\ [][Next]_vars

Pg == Progs[t]
Tr == Pg.traces[i]
Vals(s) == LET A == EvalI(x, Pg.ord, s.U, s.P, s.I) IN [k \in 1..Len(x.syms) |-> A.core[x.syms[k]].val]

RECURSIVE Walk(_, _)
Walk(k, s) ==   \* first problem <<tag, step, a, b>> or <<>>
  LET o == Tr.obs[k + 1]        \* obs[1] is the state after start
      ns == NeedsSave(x, Pg.ord, s)
  IN IF Vals(s) # o.vals THEN <<"R-values", k, Vals(s), o.vals>>
     ELSE IF ns # o.needs_save THEN <<"R-needs_save", k, ns, o.needs_save>>
     ELSE IF ~o.needs_save /\ ~o.file_is_render THEN <<"P-CleanMeansSaved", k, o.file_diff, <<>>>>
     ELSE IF k > 0 /\ Pg.acts[Tr.h[k]].a = "save" /\ o.needs_save THEN <<"P-SavedMeansClean", k, o.vals, <<>>>>
     ELSE IF k = 0 /\ Tr.f0 > 0 /\ Pg.inits[Tr.f0].tool /\ o.needs_save THEN <<"P-ToolFileClean", k, o.vals, <<>>>>
     ELSE IF k = Len(Tr.h) THEN <<>>
     ELSE Walk(k + 1, ApplyMenuAct(x, Pg.ord, Pg.renames, Pg.files, Pg.menus, s, Pg.acts[Tr.h[k + 1]]))

Check ==
  LET s0 == Start(x, Pg.ord, Pg.renames, IF Tr.f0 = 0 THEN <<"absent">> ELSE <<"lines", Pg.inits[Tr.f0].lines>>)
      r == Walk(0, s0)
  IN r = <<>> \/ PrintT(<<r[1], t, i, r[2], r[3], r[4]>>)
All == i = 0 \/ Tr.err \/ Check
=============================================================================

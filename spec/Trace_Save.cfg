SPECIFICATION Spec

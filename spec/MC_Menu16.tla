------------------------------ MODULE MC_Menu16 ------------------------------
(* C16, exploration: all action sequences up to MaxLen from each initial      *)
(* file; CleanMeansSaved on every state, SavedMeansClean after every Save and *)
(* at the start from a tool-written file.  Histories are emitted for replay.  *)
EXTENDS Naturals, Integers, Sequences, FiniteSets, SequencesExt, TLC, Json, IOUtils

Data == JsonDeserialize(IOEnv.MENU_DATA)
Tab  == Data.tab
INSTANCE KMenu WITH Num10 <- Tab.num10, Num16 <- Tab.num16, NumC <- Tab.numc,
                    DecStr <- Tab.decstr, HexStr <- Tab.hexstr, StrRank <- Tab.rank,
                    NumF <- Tab.numf, NormF <- Tab.normf, FCanon <- Tab.fcanon, HexPfx <- Tab.hexpfx

Progs  == Data.progs
MaxLen == Data.maxlen
VARIABLES t, f0, x, st, hist, lastSave
vars == <<t, f0, x, st, hist, lastSave>>
View == <<t, f0, st>>

Pg == Progs[t]
R0 == Pg.renames
InitFile(k) == IF k = 0 THEN <<"absent">> ELSE <<"lines", Pg.inits[k].lines>>

Init ==
  /\ t \in 1..Len(Progs) /\ f0 \in 0..Len(Progs[t].inits)
  /\ x = Index(Flatten(Progs[t].prog))
  /\ st = Start(x, Progs[t].ord, Progs[t].renames, IF f0 = 0 THEN <<"absent">> ELSE <<"lines", Progs[t].inits[f0].lines>>)
  /\ hist = <<>> /\ lastSave = FALSE

Do(k) ==
  /\ st' = ApplyMenuAct(x, Pg.ord, R0, Pg.files, Pg.menus, st, Pg.acts[k])
  /\ hist' = Append(hist, k) /\ lastSave' = (Pg.acts[k].a = "save")
  /\ UNCHANGED <<t, f0, x>>
Next == Len(hist) < MaxLen /\ \E k \in 1..Len(Pg.acts) : Do(k)
Spec == Init /\ [][Next]_vars

Emit == PrintT(<<"H", t, f0, hist'>>)

Clean == CleanMeansSaved(x, Pg.ord, st) \/ (f0 > 0 /\ ~Pg.inits[f0].tool)   \* hand-edited initial files: reported, not required
SavedClean == lastSave => ~NeedsSave(x, Pg.ord, st)
ToolFileClean == (hist = <<>> /\ f0 > 0 /\ Pg.inits[f0].tool) => ~NeedsSave(x, Pg.ord, st)
=============================================================================

-------------------------------- MODULE KMenu --------------------------------
(***************************************************************************)
(* The menuconfig session as far as saving is concerned (C16).             *)
(*                                                                         *)
(* st = [U, P, I, B, missing, file]                                        *)
(*   B       option -> <<"none">> | <<value, "u" | "d">>: what the last    *)
(*           main sdkconfig said about the option (user / default entry)   *)
(*   missing assignments to unknown names seen by loads                    *)
(*   file    the sdkconfig on disk: <<"absent">> or <<"lines", F>>         *)
(* Actions: SetVal (toggle / typed value / choice pick: Symbol.set_value   *)
(* when the value differs), Reset (option), ResetMenu, LoadAlt (merge of   *)
(* another file, not the main one), Save (write + reload as main file).    *)
(* NeedsSave is MenuConfigState.needs_save().                              *)
(***************************************************************************)
EXTENDS Naturals, Integers, Sequences, FiniteSets, SequencesExt, TLC

CONSTANTS Num10, Num16, NumC, DecStr, HexStr, StrRank, NumF, NormF, FCanon, HexPfx
INSTANCE KStore

NoBase == <<"none">>
EmptyB(X) == [n \in DOMAIN X.s |-> NoBase]

\* a member set to y by the user marks its siblings' entries as user-set n
PickQuirk(X, B, m) ==
  LET c == X.s[m].ch IN
  [n \in DOMAIN B |-> IF n # m /\ X.s[n].ch = c THEN <<"n", "u">> ELSE B[n]]

\* ---- loading the main sdkconfig (replace): user values, picks and baseline
BaseStep(X, R, acc, ln0) ==   \* immediate phase
  LET ln == Resolve(X, R, ln0) IN
  IF ~ln.ok THEN acc
  ELSE IF ln0.u /\ X.s[ln.n].type # "bool" THEN acc
  ELSE IF X.s[ln.n].type = "bool" /\ ln.v \notin {"y", "n"} THEN acc
  ELSE IF ln.d THEN [acc EXCEPT !.B = [@ EXCEPT ![ln.n] = <<Norm(X.s[ln.n].type, ln.v), "d">>]]
  ELSE IF X.s[ln.n].ch # "" THEN [acc EXCEPT !.chq = Append(@, <<ln.n, ln.v>>)]
  ELSE IF ValidFor(X.s[ln.n].type, ln.v) THEN [acc EXCEPT !.B = [@ EXCEPT ![ln.n] = <<Norm(X.s[ln.n].type, ln.v), "u">>]]
  ELSE acc
BaseMember(X, acc, mv) ==     \* deferred phase, in file order
  LET b1 == IF mv[2] = "y" THEN PickQuirk(X, acc.B, mv[1]) ELSE acc.B
  IN [acc EXCEPT !.B = [b1 EXCEPT ![mv[1]] = <<mv[2], "u">>]]
BaselineOf(X, R, F) ==
  LET a1 == FoldLeft(LAMBDA acc, ln : BaseStep(X, R, acc, ln), [B |-> EmptyB(X), chq |-> <<>>], F)
  IN FoldLeft(LAMBDA acc, mv : BaseMember(X, acc, mv), a1, a1.chq).B

MainLoad(X, ord, R, st, F) ==   \* defaults policy: sdkconfig (the default)
  LET l == LoadPFrom(X, ord, R, F, "sdkconfig", st.I)
  IN [st EXCEPT !.U = l.U, !.P = l.P, !.I = l.I, !.B = BaselineOf(X, R, F), !.missing = l.missing]

Start(X, ord, R, file) ==
  LET st0 == [U |-> NoUser(X).U, P |-> NoUser(X).P, I |-> NoInj(X), B |-> EmptyB(X), missing |-> <<>>, file |-> file]
  IN IF file[1] = "absent" THEN st0 ELSE MainLoad(X, ord, R, st0, file[2])

\* ---- needs_save()
NeedsSave(X, ord, st) ==
  LET A == EvalI(X, ord, st.U, st.P, st.I) IN
  \/ st.missing # <<>>
  \/ \E n \in DOMAIN X.s :
       LET b == st.B[n]
           c == A.core[n]
           mk == Marked(X, A, st.U, st.P, n) IN
       IF b = NoBase THEN c.written
       ELSE \/ c.val # b[1]
            \/ (b[2] = "u" /\ mk)
            \/ (b[2] = "d" /\ ~mk)

\* ---- edits
\* _set_val: only when the value differs from the current one
SetVal(X, ord, st, n, v) ==
  LET A == EvalI(X, ord, st.U, st.P, st.I) IN
  IF v = A.core[n].val THEN st
  ELSE LET r == SetSym(X, st.U, st.P, n, v) IN
       IF ~r.ok THEN st
       ELSE [st EXCEPT !.U = r.U, !.P = r.P,
                       !.B = IF X.s[n].ch # "" /\ v = "y" THEN PickQuirk(X, @, n) ELSE @]
\* what the front end lets through: the option must be visible; a bool value must be in the
\* assignable set; a typed value needs an option that is not force-set and must pass the
\* validator (well-formed for the type and inside the active range)
InActiveRange(X, A, n, v) ==
  LET S == X.s[n]
      ri == FirstTrue(X, A, S.ranges) IN
  ri = 0 \/ (NumOr0(S.type, AtomStr(X, A, S.ranges[ri].lo)) <= NumOf(S.type, v)
            /\ NumOf(S.type, v) <= NumOr0(S.type, AtomStr(X, A, S.ranges[ri].hi)))
UiSet(X, ord, st, n, v) ==
  LET A == EvalI(X, ord, st.U, st.P, st.I)
      c == A.core[n]
      ty == X.s[n].type IN
  IF c.vis # 2 THEN st
  ELSE IF ty = "bool" THEN
    (IF (v = "y" /\ c.asg \in {"y", "ny"}) \/ (v = "n" /\ c.asg = "ny") THEN SetVal(X, ord, st, n, v) ELSE st)
  ELSE IF c.forced THEN st
  ELSE IF ty \in {"int", "hex", "float"} /\ ~(IsNum(ty, v) /\ InActiveRange(X, A, n, v)) THEN st
  ELSE SetVal(X, ord, st, n, IF ty = "hex" /\ v \in DOMAIN HexPfx THEN HexPfx[v] ELSE v)   \* the dialog prefixes 0x

ResetOne(X, st, n) ==
  IF n \in DOMAIN X.s THEN LET r == ResetSym(X, st.U, st.P, n) IN [st EXCEPT !.U = r.U, !.P = r.P]
  ELSE LET r == ResetChoice(X, st.U, st.P, n) IN [st EXCEPT !.U = r.U, !.P = r.P]
ResetMany(X, st, names) == FoldLeft(LAMBDA acc, n : ResetOne(X, acc, n), st, names)

LoadAlt(X, R, st, F) ==   \* try_load: merge, not the main file
  LET l == Load(X, R, F, FALSE, st.U, st.P)
      \* nothing is recorded about this file, but assigning y to a member still marks its
      \* siblings' entries (Symbol.set_value), in the order the members are applied
      rs == [k \in 1..Len(F) |-> Resolve(X, R, F[k])]
      ys == SelectSeq(rs, LAMBDA r : r.ok /\ ~r.d /\ X.s[r.n].ch # "" /\ r.v = "y")
      b2 == FoldLeft(LAMBDA b, r : PickQuirk(X, b, r.n), st.B, ys)
  IN [st EXCEPT !.U = l.U, !.P = l.P, !.missing = @ \o l.missing, !.B = b2]

Save(X, ord, R, st) ==    \* write_config + reload_sdkconfig_file
  LET A == EvalI(X, ord, st.U, st.P, st.I)
      F == Render(X, A, st.U, st.P)
  IN MainLoad(X, ord, R, [st EXCEPT !.file = <<"lines", F>>], F)

ApplyMenuAct(X, ord, R, Files, Menus, st, act) ==
  CASE act.a = "set"       -> UiSet(X, ord, st, act.n, act.v)
    [] act.a = "reset"     -> ResetOne(X, st, act.n)
    [] act.a = "resetch"   -> ResetOne(X, st, act.c)
    [] act.a = "resetmenu" -> ResetMany(X, st, Menus[act.m])
    [] act.a = "loadalt"   -> LoadAlt(X, R, st, Files[act.f])
    [] act.a = "save"      -> Save(X, ord, R, st)
    [] OTHER -> st

\* ---- the property
Triples(F) == [k \in 1..Len(F) |-> <<F[k].n, F[k].v, F[k].d>>]
FileIsRender(X, ord, st) ==
  LET A == EvalI(X, ord, st.U, st.P, st.I) IN
  \/ (st.file[1] = "lines" /\ Triples(st.file[2]) = Triples(Render(X, A, st.U, st.P)))
  \/ (st.file[1] = "absent" /\ Render(X, A, st.U, st.P) = <<>>)   \* nothing at all to write
CleanMeansSaved(X, ord, st) == ~NeedsSave(X, ord, st) => FileIsRender(X, ord, st)
=============================================================================

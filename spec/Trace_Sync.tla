----------------------------- MODULE Trace_Sync -----------------------------
(***************************************************************************)
(* Trace validation for sync_deps(): executions recorded from the real     *)
(* code (file-system operations seen by the interposer, with injected      *)
(* crashes) are replayed through the effects of the SyncDeps actions.      *)
(*                                                                         *)
(* Every event handler is total: the file-system and ghost effects are     *)
(* taken from the event, the control state (pc, tq, wq) follows the        *)
(* specification's algorithm, and `conform` records whether the event was  *)
(* the one the specification's algorithm would have performed.  The        *)
(* property invariants of SyncDeps are evaluated on every observed state;  *)
(* the first failing clause is kept in `bad`.  One verdict line is printed *)
(* per trace.                                                              *)
(***************************************************************************)
EXTENDS Naturals, Integers, Sequences, FiniteSets, SequencesExt, TLC, Json, IOUtils

Raw == JsonDeserialize(IOEnv.SYNC_TRACES)

TCfgs   == [i \in 1..Len(Raw.cfgs) |-> [Raw.cfgs[i] EXCEPT !.known = ToSet(@)]]
TNames  == ToSet(Raw.names)
TAtomic == Raw.atomic
TUnq == Raw.unq
TFlagVanished == Raw.flag_vanished
Traces  == Raw.traces

VARIABLES cfg, dir, ac, tmp, pc, tq, wq, opn, wrote, done, cfgDone, touched, touchedRun, clean, synced,
          nchg, ncrash, nsync, hist,
          tid, l, bad, conform, fsok, fin

S == INSTANCE SyncDeps WITH Cfgs <- TCfgs, Names <- TNames, Unq <- TUnq, TornVals <- {},
                            AtomicWrite <- TAtomic, FlagVanished <- TFlagVanished, MaxChanges <- 0, MaxCrashes <- 0, MaxSyncs <- 0

tvars == <<cfg, dir, ac, tmp, pc, tq, wq, opn, wrote, done, cfgDone, touched, touchedRun, clean, synced,
           nchg, ncrash, nsync, hist, tid, l, bad, conform, fsok, fin>>

T  == Traces[tid]
Ev == T.events[l]
C  == TCfgs[cfg]

\* the property clauses, evaluated on explicit values so that they can be applied to the next state
FirstFailing(pcv, cfgv, donev, touchedv, runv, cleanv, wrotev, acv, syncedv, cfgDonev) ==
  LET c == TCfgs[cfgv] IN
  IF pcv # "finish" THEN ""
  ELSE IF \E n \in TNames : c.vv[n] # donev[n] /\ n \notin touchedv THEN "NoLostTrigger"
  ELSE IF cleanv /\ \E n \in TNames : c.vv[n] = donev[n] /\ n \in runv THEN "NoSpurious"
  ELSE IF cleanv /\ syncedv /\ (\A n \in TNames : c.vv[n] = donev[n]) /\ (runv # {} \/ (wrotev /\ cfgv = cfgDonev)) THEN "Idempotent"
  ELSE IF ~S!SameContent(c, acv) THEN "Recorded"
  ELSE ""

Judge == bad' = IF bad # "" THEN bad
                ELSE LET f == FirstFailing(pc', cfg', done', touched', touchedRun', clean', wrote', ac', synced', cfgDone')
                     IN IF f = "" THEN "" ELSE f

Frozen == UNCHANGED <<opn, nchg, ncrash, nsync, hist, tid, fin>>

Init ==
  /\ tid \in 1..Len(Traces)
  /\ l = 1 /\ bad = "" /\ conform = TRUE /\ fsok = TRUE /\ fin = FALSE
  /\ cfg = 1
  /\ dir = FALSE /\ ac = S!NoFile /\ tmp = S!NoFile
  /\ pc = "idle" /\ tq = <<>> /\ wq = <<>> /\ opn = 0 /\ wrote = FALSE
  /\ done = [n \in TNames |-> S!Absent] /\ cfgDone = 0 /\ touched = {} /\ touchedRun = {} /\ clean = TRUE /\ synced = FALSE
  /\ nchg = 0 /\ ncrash = 0 /\ nsync = 0 /\ hist = <<>>

Consume == l <= Len(T.events) /\ l' = l + 1

ECfg ==
  /\ Consume /\ Ev.e = "cfg" /\ cfg' = Ev.i
  /\ conform' = (conform /\ pc = "idle")
  /\ UNCHANGED <<dir, ac, tmp, pc, tq, wq, wrote, done, cfgDone, touched, touchedRun, clean, fsok>>

EStart ==
  /\ Consume /\ Ev.e = "start"
  /\ pc' = IF dir THEN "load" ELSE "mkdir"
  /\ wrote' = FALSE /\ touchedRun' = {} /\ tq' = <<>> /\ wq' = <<>>
  /\ conform' = (conform /\ pc = "idle")
  /\ UNCHANGED <<cfg, dir, ac, tmp, done, cfgDone, touched, clean, fsok>>

EMkdir ==
  /\ Consume /\ Ev.e = "mkdir" /\ dir' = TRUE /\ pc' = "load"
  /\ conform' = (conform /\ pc = "mkdir")
  /\ UNCHANGED <<cfg, ac, tmp, tq, wq, wrote, done, cfgDone, touched, touchedRun, clean, fsok>>

ERead ==   \* a read of auto.conf: the Load step, or the comparison before writing
  /\ Consume /\ Ev.e = "read"
  /\ IF pc = "load" THEN tq' = S!TouchList(C, ac) /\ pc' = "touch" /\ conform' = conform
     ELSE IF pc = "touch" /\ tq = <<>>
       THEN pc' = (IF S!SameContent(C, ac) THEN "finish" ELSE "open") /\ tq' = tq /\ conform' = conform
       ELSE pc' = pc /\ tq' = tq /\ conform' = FALSE
  /\ UNCHANGED <<cfg, dir, ac, tmp, wq, wrote, done, cfgDone, touched, touchedRun, clean, fsok>>

ETouch ==
  /\ Consume /\ Ev.e = "touch"
  /\ touched' = touched \cup {Ev.n} /\ touchedRun' = touchedRun \cup {Ev.n}
  /\ conform' = (conform /\ pc = "touch" /\ tq # <<>> /\ Head(tq) = Ev.n)
  /\ tq' = IF tq # <<>> THEN Tail(tq) ELSE tq
  /\ UNCHANGED <<cfg, dir, ac, tmp, pc, wq, wrote, done, cfgDone, clean, fsok>>

EOpen ==
  /\ Consume /\ Ev.e = "open"
  /\ IF Ev.f = "ac" THEN ac' = S!Empty /\ tmp' = tmp ELSE tmp' = S!Empty /\ ac' = ac
  /\ wrote' = TRUE /\ wq' = S!Content(C) /\ pc' = "write"
  /\ conform' = (conform /\ pc = "open" /\ Ev.f = (IF TAtomic THEN "tmp" ELSE "ac"))
  /\ UNCHANGED <<cfg, dir, tq, done, cfgDone, touched, touchedRun, clean, fsok>>

AppendTo(f, ln) ==
  IF f = "ac" THEN ac' = [ac EXCEPT !.ex = TRUE, !.lines = Append(@, ln)] /\ tmp' = tmp
              ELSE tmp' = [tmp EXCEPT !.ex = TRUE, !.lines = Append(@, ln)] /\ ac' = ac

EWrite ==
  /\ Consume /\ Ev.e = "write" /\ AppendTo(Ev.f, Ev.ln)
  /\ conform' = (conform /\ pc = "write" /\ wq # <<>> /\ Head(wq) = Ev.ln)
  /\ wq' = IF wq # <<>> THEN Tail(wq) ELSE wq
  /\ UNCHANGED <<cfg, dir, pc, tq, wrote, done, cfgDone, touched, touchedRun, clean, fsok>>

ETorn ==   \* the crash tore the line: what is on disk parses to Ev.ln (or to nothing)
  /\ Consume /\ Ev.e = "torn"
  /\ IF Ev.ln = <<>> THEN UNCHANGED <<ac, tmp>> ELSE AppendTo(Ev.f, Ev.ln)
  /\ UNCHANGED <<cfg, dir, pc, tq, wq, wrote, done, cfgDone, touched, touchedRun, clean, fsok, conform>>

EReplace ==
  /\ Consume /\ Ev.e = "replace" /\ ac' = tmp /\ tmp' = S!NoFile /\ pc' = "finish"
  /\ conform' = (conform /\ pc = "write" /\ wq = <<>> /\ TAtomic)
  /\ UNCHANGED <<cfg, dir, tq, wq, wrote, done, cfgDone, touched, touchedRun, clean, fsok>>

ECrash ==
  /\ Consume /\ Ev.e = "crash" /\ pc' = "idle" /\ clean' = FALSE
  /\ UNCHANGED <<cfg, dir, ac, tmp, tq, wq, wrote, done, cfgDone, touched, touchedRun, fsok, conform>>

ERet ==    \* sync_deps() is about to return normally: the property is judged here
  /\ Consume /\ Ev.e = "ret" /\ pc' = "finish"
  /\ conform' = (conform /\ (pc = "finish" \/ (pc = "write" /\ wq = <<>> /\ ~TAtomic)))
  /\ UNCHANGED <<cfg, dir, ac, tmp, tq, wq, wrote, done, cfgDone, touched, touchedRun, clean, fsok>>

EDone ==
  /\ Consume /\ Ev.e = "done" /\ pc' = "idle"
  /\ done' = C.vv /\ cfgDone' = cfg /\ touched' = {} /\ clean' = TRUE /\ synced' = TRUE
  /\ UNCHANGED <<cfg, dir, ac, tmp, tq, wq, wrote, touchedRun, fsok, conform>>

EDisk ==   \* what is really on disk must be what the file-system model tracked
  /\ Consume /\ Ev.e = "disk"
  /\ fsok' = (fsok /\ ac = Ev.ac /\ dir = Ev.dir)
  /\ UNCHANGED <<cfg, dir, ac, tmp, pc, tq, wq, wrote, done, cfgDone, touched, touchedRun, clean, conform>>

EOther ==  \* an operation the specification does not know
  /\ Consume /\ Ev.e = "other" /\ conform' = FALSE
  /\ UNCHANGED <<cfg, dir, ac, tmp, pc, tq, wq, wrote, done, cfgDone, touched, touchedRun, clean, fsok>>

Verdict ==
  /\ l = Len(T.events) + 1 /\ ~fin /\ fin' = TRUE
  /\ PrintT(<<"V", T.id, bad, conform, fsok>>)
  /\ UNCHANGED <<cfg, dir, ac, tmp, pc, tq, wq, opn, wrote, done, cfgDone, touched, touchedRun, clean,
                 nchg, ncrash, nsync, hist, tid, l, bad, conform, fsok, synced>>

KeepSynced == Ev.e # "done" => synced' = synced

Event == ECfg \/ EStart \/ EMkdir \/ ERead \/ ETouch \/ EOpen \/ EWrite \/ ETorn
         \/ EReplace \/ ECrash \/ ERet \/ EDone \/ EDisk \/ EOther

Next == (Event /\ KeepSynced /\ Judge /\ Frozen) \/ Verdict

Spec == Init /\ [][Next]_tvars

\* every trace must be consumed to its end (a stuck trace is a machinery failure)
AllConsumed == TLCGet("stats").distinct >= 0
=============================================================================

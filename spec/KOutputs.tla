------------------------------ MODULE KOutputs ------------------------------
(***************************************************************************)
(* What each generated format says about a configuration (C07).            *)
(* Every format is abstracted to a map  name -> "absent" | canonical value *)
(*   bool    : "y" / "n"                                                   *)
(*   string  : the string                                                  *)
(*   numbers : ToString of the number the token denotes                    *)
(* with each format's documented encoding of n: sdkconfig `# X is not set`,*)
(* header and auto.conf absence, CMake "", JSON false.                     *)
(* Rename lines are <<old, new, inverted>> in file order; the last mapping *)
(* of an old name wins.  An alias carries its replacement's value, inverted*)
(* exactly when its own rename line is marked with `!` (bools only).       *)
(***************************************************************************)
EXTENDS Naturals, Integers, Sequences, FiniteSets, SequencesExt, TLC

CONSTANTS Num10, Num16, NumC, DecStr, HexStr, StrRank, NumF, NormF, FCanon, HexPfx
INSTANCE KEval

Absent == "absent"

CanonVal(X, A, n) ==
  LET ty == X.s[n].type
      v == A.core[n].val IN
  IF ty \in {"int", "hex", "float"} THEN (IF IsNum(ty, v) THEN ToString(NumOf(ty, v)) ELSE "<nan:" \o v \o ">")
  ELSE v

IsBool(X, n) == X.s[n].type = "bool"
Written(A, n) == A.core[n].written

ExpSdk(X, A, n) == IF Written(A, n) THEN CanonVal(X, A, n) ELSE Absent
ExpCMake(X, A, n) == IF Written(A, n) THEN CanonVal(X, A, n) ELSE Absent
ExpJson(X, A, n) == IF Written(A, n) THEN CanonVal(X, A, n) ELSE Absent
\* header and auto.conf encode a bool n by absence; an unwritten bool reads as n as well
ExpHeader(X, A, n) ==
  IF IsBool(X, n) THEN (IF Written(A, n) /\ A.core[n].val = "y" THEN "y" ELSE "n")
  ELSE IF Written(A, n) THEN CanonVal(X, A, n) ELSE Absent
ExpAutoConf(X, A, n) == ExpHeader(X, A, n)

Expected(X, A) ==
  [k \in 1..Len(X.syms) |->
     LET n == X.syms[k] IN <<ExpSdk(X, A, n), ExpHeader(X, A, n), ExpCMake(X, A, n), ExpJson(X, A, n), ExpAutoConf(X, A, n)>>]

\* ---- rename table
LastIdx(lines, old) == CHOOSE i \in 1..Len(lines) : lines[i][1] = old /\ \A j \in 1..Len(lines) : lines[j][1] = old => j <= i
Olds(lines) == {lines[i][1] : i \in 1..Len(lines)}
Mapping(lines, old) == lines[LastIdx(lines, old)]

Inv(v) == IF v = "y" THEN "n" ELSE "y"
AliasVal(X, A, m) ==   \* m = <<old, new, inverted>>, new defined
  IF m[3] /\ IsBool(X, m[2]) THEN Inv(A.core[m[2]].val) ELSE CanonVal(X, A, m[2])

\* per alias: <<old, sdkconfig block, header (C semantics of the #define), CMake>>
ExpAlias(X, A, lines, old) ==
  LET m == Mapping(lines, old) IN
  IF m[2] \notin DOMAIN X.s THEN <<old, Absent, IF FALSE THEN "" ELSE Absent, Absent>>
  ELSE LET w == Written(A, m[2])
           v == AliasVal(X, A, m) IN
       <<old,
         IF w THEN v ELSE Absent,
         IF IsBool(X, m[2]) THEN (IF w THEN v ELSE "n") ELSE (IF w THEN v ELSE Absent),
         IF w THEN v ELSE Absent>>

ExpectedAliases(X, A, lines) == {ExpAlias(X, A, lines, o) : o \in Olds(lines)}
=============================================================================

SPECIFICATION Spec
VIEW View
ACTION_CONSTRAINT Emit
INVARIANT SelOK
INVARIANT RaiseSeen

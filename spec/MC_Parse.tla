-------------------------------- MODULE MC_Parse --------------------------------
(* C04: the finalised tree each parser built, abstracted by the harness into the  *)
(* same definition records Flatten produces (conditions as expressions, already   *)
(* propagated), is interpreted by the evaluator of KEval: under every assignment  *)
(* of the candidate user values, the tree of parser 1, the tree of parser 2 and   *)
(* the specification's Flatten of the abstract program give every option the same *)
(* value, visibility, assignable set and sdkconfig line.                          *)
EXTENDS Naturals, Integers, Sequences, FiniteSets, SequencesExt, TLC, Json, IOUtils

Data == JsonDeserialize(IOEnv.PARSE_DATA)
Tab  == Data.tab
INSTANCE KStore WITH Num10 <- Tab.num10, Num16 <- Tab.num16, NumC <- Tab.numc,
                     DecStr <- Tab.decstr, HexStr <- Tab.hexstr, StrRank <- Tab.rank,
                     NumF <- Tab.numf, NormF <- Tab.normf, FCanon <- Tab.fcanon, HexPfx <- Tab.hexpfx

Progs == Data.progs
RECURSIVE ProdFrom(_, _)
ProdFrom(vs, k) == IF k > Len(vs) THEN 1 ELSE Len(vs[k].cands) * ProdFrom(vs, k + 1)
Total(t) == ProdFrom(Progs[t].vars, 1)
PickOf(vs, idx, k) == vs[k].cands[(((idx - 1) \div ProdFrom(vs, k + 1)) % Len(vs[k].cands)) + 1]

VARIABLES t, i, xs, x1, x2
vars == <<t, i, xs, x1, x2>>
View == <<t, i>>
Pg == Progs[t]
Init == /\ t \in 1..Len(Progs) /\ i = 0
        /\ xs = Index(Flatten(Progs[t].prog))
        /\ x1 = Index(Progs[t].d1) /\ x2 = Index(Progs[t].d2)
Next == i = 0 /\ t' = t /\ UNCHANGED <<xs, x1, x2>> /\ i' \in 1..Total(t)
Spec == Init /\ [][Next]_vars

VarIdx(vs, n, kind) == {k \in 1..Len(vs) : vs[k].n = n /\ vs[k].kind = kind}
UOf(X) == [n \in DOMAIN X.s |->
            LET ks == VarIdx(Pg.vars, n, "sym")
                raw == IF ks = {} THEN NoVal ELSE PickOf(Pg.vars, i, CHOOSE k \in ks : TRUE)
            IN IF raw = NoVal THEN NoVal ELSE IF ValidFor(X.s[n].type, raw) THEN Norm(X.s[n].type, raw) ELSE NoVal]
POf(X) == [c \in DOMAIN X.c |->
            LET ks == VarIdx(Pg.vars, c, "choice") IN IF ks = {} THEN NoVal ELSE PickOf(Pg.vars, i, CHOOSE k \in ks : TRUE)]
Val(X) == Valuation(X, Eval(X, Pg.ord, UOf(X), POf(X)))

Check ==
  LET vs == Val(xs)
      v1 == Val(x1)
      v2 == Val(x2) IN
  /\ (i # 1 \/ (x1.syms = xs.syms /\ x1.chs = xs.chs) \/ PrintT(<<"R-names1", t, i, xs.syms, x1.syms>>))
  /\ (i # 1 \/ (x2.syms = xs.syms /\ x2.chs = xs.chs) \/ PrintT(<<"R-names2", t, i, xs.syms, x2.syms>>))
  /\ (v1 = vs \/ PrintT(<<"R-parser1", t, i, vs, v1>>))
  /\ (v2 = vs \/ PrintT(<<"R-parser2", t, i, vs, v2>>))
  /\ (v1 = v2 \/ PrintT(<<"P-SameConfiguration", t, i, v1, v2>>))
All == i = 0 \/ Check
=============================================================================

----------------------------- MODULE Trace_Save -----------------------------
(***************************************************************************)
(* Trace validation for the file writers (SaveFile.tla).  An observed run  *)
(* is the list of file-system operations the interposer saw, with file     *)
(* contents as strings.  The effects of the operations are applied to a    *)
(* three-file model (dest, old = dest.old, tmp); the clauses of SaveFile   *)
(* are judged after every operation, i.e. at every point where the process *)
(* may die, and on the crash states themselves.                            *)
(***************************************************************************)
EXTENDS Naturals, Sequences, FiniteSets, TLC, Json, IOUtils

Raw    == JsonDeserialize(IOEnv.SAVE_TRACES)
Traces == Raw.traces

VARIABLES tid, l, bad, fsok, fin,
          flow, dest, old, tmp, link, newc, prev, mutated, ended,
          oalias     \* <dest>.old is a second name (link) for the destination's file, not a copy

tvars == <<tid, l, bad, fsok, fin, flow, dest, old, tmp, link, newc, prev, mutated, ended, oalias>>

NoFile == [ex |-> FALSE, data |-> ""]
Empty  == [ex |-> TRUE, data |-> ""]
File(s) == [ex |-> TRUE, data |-> s]

T  == Traces[tid]
Ev == T.events[l]

Init ==
  /\ tid \in 1..Len(Traces)
  /\ l = 1 /\ bad = "" /\ fsok = TRUE /\ fin = FALSE
  /\ flow = "" /\ dest = NoFile /\ old = NoFile /\ tmp = NoFile /\ link = FALSE
  /\ newc = "" /\ prev = NoFile /\ mutated = FALSE /\ ended = "no" /\ oalias = FALSE

\* ---- the clauses (same as SaveFile.tla, on concrete contents)
FirstFailing(fl, d, o, t, p, n, mut, e) ==
  IF fl = "cfg" /\ p.ex /\ ~(d = File(n) \/ d = p \/ o = p) THEN "NeverBothLost"
  ELSE IF p.ex /\ p.data = n /\ mut THEN "UnchangedUntouched"
  ELSE IF e = "done" /\ d # File(n) THEN "Completed"
  ELSE IF e = "done" /\ fl = "cfg" /\ p.ex /\ p.data # n /\ o # p THEN "BackupMade"
  ELSE ""

\* what reading <dest>.old yields
EffOld(a, d, o) == IF a THEN d ELSE o
Judge == bad' = IF bad # "" THEN bad
                ELSE FirstFailing(flow', dest', EffOld(oalias', dest', old'), tmp', prev', newc', mutated', ended')

Consume == l <= Len(T.events) /\ l' = l + 1

EBegin ==
  /\ Consume /\ Ev.e = "begin"
  /\ flow' = Ev.flow /\ dest' = Ev.dest /\ old' = Ev.old /\ tmp' = NoFile /\ link' = Ev.link
  /\ newc' = Ev.new /\ prev' = Ev.dest /\ mutated' = FALSE /\ ended' = "no" /\ oalias' = FALSE
  /\ UNCHANGED fsok

SetFile(f, v) ==
  /\ dest' = IF f = "dest" THEN v ELSE dest
  /\ old'  = IF f = "old" THEN v ELSE old
  /\ tmp'  = IF f = "tmp" THEN v ELSE tmp
GetFile(f) == IF f = "dest" THEN dest ELSE IF f = "old" THEN old ELSE IF f = "tmp" THEN tmp ELSE NoFile

\* the file an operation on name f reaches
Via(f) == IF f = "old" /\ oalias THEN "dest" ELSE f

EOpen ==     \* open(f, "w") / copyfile opening its destination: create or truncate
  /\ Consume /\ Ev.e = "open" /\ SetFile(Via(Ev.f), Empty)
  /\ mutated' = (mutated \/ Via(Ev.f) = "dest")
  /\ UNCHANGED <<flow, link, newc, prev, ended, fsok, oalias>>

EAlias ==    \* copyfile(dest -> dest.old, follow_symlinks=False) on a symlinked destination
  /\ Consume /\ Ev.e = "alias" /\ Ev.f = "old" /\ oalias' = TRUE
  /\ UNCHANGED <<flow, dest, old, tmp, link, newc, prev, mutated, ended, fsok>>

EWrite ==    \* a chunk (possibly a torn one) reaches the file
  /\ Consume /\ Ev.e \in {"write", "torn"}
  /\ SetFile(Via(Ev.f), [ex |-> TRUE, data |-> GetFile(Via(Ev.f)).data \o Ev.d])
  /\ mutated' = (mutated \/ Via(Ev.f) = "dest")
  /\ UNCHANGED <<flow, link, newc, prev, ended, fsok, oalias>>

EReplace ==  \* os.replace(src, dst); a missing source raises and is ignored by _save_old
  /\ Consume /\ Ev.e = "replace"
  /\ IF GetFile(Ev.src).ex
       THEN /\ dest' = IF Ev.dst = "dest" THEN GetFile(Ev.src) ELSE IF Ev.src = "dest" THEN NoFile ELSE dest
            /\ old'  = IF Ev.dst = "old" THEN GetFile(Ev.src) ELSE IF Ev.src = "old" THEN NoFile ELSE old
            /\ tmp'  = IF Ev.dst = "tmp" THEN GetFile(Ev.src) ELSE IF Ev.src = "tmp" THEN NoFile ELSE tmp
            /\ mutated' = (mutated \/ Ev.src = "dest" \/ Ev.dst = "dest")
       ELSE UNCHANGED <<dest, old, tmp, mutated>>
  /\ oalias' = (oalias /\ Ev.dst # "old" /\ Ev.src # "old")    \* the name is replaced, not the file behind it
  /\ UNCHANGED <<flow, link, newc, prev, ended, fsok>>

ERemove ==
  /\ Consume /\ Ev.e = "remove" /\ SetFile(Ev.f, NoFile)
  /\ mutated' = (mutated \/ Ev.f = "dest")
  /\ oalias' = (oalias /\ Ev.f # "old")
  /\ UNCHANGED <<flow, link, newc, prev, ended, fsok>>

ETouchMeta == \* utime or anything else that changes the destination's metadata
  /\ Consume /\ Ev.e = "meta"
  /\ mutated' = (mutated \/ Ev.f = "dest")
  /\ UNCHANGED <<flow, dest, old, tmp, link, newc, prev, ended, fsok, oalias>>

ECrash ==
  /\ Consume /\ Ev.e = "crash" /\ ended' = "crashed"
  /\ UNCHANGED <<flow, dest, old, tmp, link, newc, prev, mutated, fsok, oalias>>

EEnd ==      \* the call returned; the disk must be what the model tracked
  /\ Consume /\ Ev.e = "end"
  /\ ended' = IF ended = "crashed" THEN ended ELSE "done"
  /\ fsok' = (fsok /\ dest = Ev.disk.dest /\ EffOld(oalias, dest, old) = Ev.disk.old)
  /\ mutated' = (mutated \/ ~Ev.stat_same)
  /\ UNCHANGED <<flow, dest, old, tmp, link, newc, prev, oalias>>

Verdict ==
  /\ l = Len(T.events) + 1 /\ ~fin /\ fin' = TRUE
  /\ PrintT(<<"V", T.id, bad, fsok>>)
  /\ UNCHANGED <<tid, l, bad, fsok, flow, dest, old, tmp, link, newc, prev, mutated, ended, oalias>>

Event == EBegin \/ EOpen \/ EAlias \/ EWrite \/ EReplace \/ ERemove \/ ETouchMeta \/ ECrash \/ EEnd

Next == (Event /\ Judge /\ UNCHANGED <<tid, fin>>) \/ Verdict
Spec == Init /\ [][Next]_tvars
=============================================================================

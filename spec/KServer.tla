------------------------------- MODULE KServer -------------------------------
(***************************************************************************)
(* kconfserver: one request line -> one reply line (C14, C15).             *)
(*                                                                         *)
(* The configuration behind the server is a KStore session st = [U, P].    *)
(* What a client can know is four maps (the reply channels):               *)
(*   values   option -> canonical value, for written options               *)
(*   visible  option / choice id -> BOOLEAN                                *)
(*   ranges   option -> <<lo, hi>> of the active range                     *)
(*   defaults option -> BOOLEAN (the `# default:` marker predicate)        *)
(* A reply carries, per channel, the entries of the state after the        *)
(* request that differ from the state before it; the client overlays them. *)
(* (Menus and comments also have `visible` entries; their ids are opaque   *)
(* to this specification, see MC_Server.)                                  *)
(*                                                                         *)
(* A request is a record [ver, load, set, reset, save] with                *)
(*   load / save : -1 (absent), 0 (null: last used path), k (path k)       *)
(*   set   : sequence of <<name, jv>>, jv = <<kind, text>> an abstract     *)
(*           JSON value: "b" true/false as "y"/"n", "i" integer (decimal   *)
(*           text), "f" float, "s" string, "null", "list", "obj"           *)
(*   reset : sequence of names / menu ids / "all"                          *)
(* processed in the order load, set, reset, save.                          *)
(***************************************************************************)
EXTENDS Naturals, Integers, Sequences, FiniteSets, SequencesExt, TLC

CONSTANTS Num10, Num16, NumC, DecStr, HexStr, StrRank, NumF, NormF, FCanon, HexPfx
INSTANCE KStore
KO == INSTANCE KOutputs

----------------------------------------------------------------------------
(* The four channels of a configuration.                                   *)
ChValues(X, A) ==
  LET w == {n \in DOMAIN X.s : A.core[n].written} IN [n \in w |-> KO!CanonVal(X, A, n)]
ChVisible(X, A) ==
  [k \in DOMAIN X.s \cup DOMAIN X.c |-> IF k \in DOMAIN X.s THEN A.core[k].vis = 2 ELSE A.mode[k] = 2]
ChRanges(X, A) ==
  LET act == {n \in DOMAIN X.s : X.s[n].type \in {"int", "hex", "float"} /\ FirstTrue(X, A, X.s[n].ranges) # 0}
  IN [n \in act |->
        LET r == X.s[n].ranges[FirstTrue(X, A, X.s[n].ranges)]
            ty == X.s[n].type
        IN <<NumOr0(ty, AtomStr(X, A, r.lo)), NumOr0(ty, AtomStr(X, A, r.hi))>>]
ChDefaults(X, A, U, P) == [n \in DOMAIN X.s |-> Marked(X, A, U, P, n)]

Full(X, ord, st) ==
  LET A == EvalI(X, ord, st.U, st.P, st.I) IN
  [values |-> ChValues(X, A), visible |-> ChVisible(X, A), ranges |-> ChRanges(X, A),
   defaults |-> ChDefaults(X, A, st.U, st.P)]

Diff(before, after) ==
  LET ks == {k \in DOMAIN after : k \notin DOMAIN before \/ before[k] # after[k]} IN [k \in ks |-> after[k]]
DiffAll(b, a) == [values |-> Diff(b.values, a.values), visible |-> Diff(b.visible, a.visible),
                  ranges |-> Diff(b.ranges, a.ranges), defaults |-> Diff(b.defaults, a.defaults)]
Overlay(old, d) == [k \in DOMAIN old \cup DOMAIN d |-> IF k \in DOMAIN d THEN d[k] ELSE old[k]]
Merge(c, r) == [values |-> Overlay(c.values, r.values), visible |-> Overlay(c.visible, r.visible),
                ranges |-> Overlay(c.ranges, r.ranges), defaults |-> Overlay(c.defaults, r.defaults)]

----------------------------------------------------------------------------
(* `set`: conversion of a JSON value for an option of a given type.        *)
(* <<kind of outcome, value>>: "set" (try to assign value), "error" (an    *)
(* error entry, nothing assigned).                                         *)
Conv(type, jv) ==
  LET k == jv[1]
      v == jv[2] IN
  CASE type = "bool" -> IF k = "b" THEN <<"set", v>> ELSE <<"error", "">>
    [] type = "hex" ->
         IF k = "i" /\ v \in DOMAIN Num10 /\ Num10[v] >= 0 THEN <<"set", HexStr[ToString(Num10[v])]>>
         ELSE IF k = "s" /\ v \in DOMAIN Num16 /\ Num16[v] >= 0 THEN <<"set", HexStr[ToString(Num16[v])]>>
         ELSE <<"error", "">>
    [] type = "float" -> IF k \in {"i", "f", "s"} /\ v \in DOMAIN NumF THEN <<"set", v>> ELSE <<"error", "">>
    [] type = "int" -> IF k \in {"i", "s", "f"} THEN <<"set", v>> ELSE <<"error", "">>
    [] OTHER -> IF k = "s" THEN <<"set", v>> ELSE <<"error", "">>   \* (numbers for a string option: left open, not sent)

\* one pass: everything that is visible now is assigned (in request order), the rest waits
RECURSIVE SetLoop(_, _, _, _, _)
SetLoop(X, ord, st, pending, errs) ==
  LET A == EvalI(X, ord, st.U, st.P, st.I)
      now == SelectSeq(pending, LAMBDA e : A.core[e[1]].vis = 2)
      later == SelectSeq(pending, LAMBDA e : A.core[e[1]].vis # 2)
      step(acc, e) ==
        LET c == Conv(X.s[e[1]].type, e[2]) IN
        IF c[1] = "error" THEN [acc EXCEPT !.errs = @ + 1]
        ELSE LET r == SetSym(X, acc.st.U, acc.st.P, e[1], c[2])
             IN [acc EXCEPT !.st = [@ EXCEPT !.U = r.U, !.P = r.P]]
      done == FoldLeft(step, [st |-> st, errs |-> errs], now)
  IN IF now = <<>> THEN [st |-> st, errs |-> errs + (IF later = <<>> THEN 0 ELSE 1)]
     ELSE SetLoop(X, ord, done.st, later, done.errs)

HandleSet(X, ord, st, set) ==
  LET known == SelectSeq(set, LAMBDA e : e[1] \in DOMAIN X.s)
      e0 == IF Len(known) < Len(set) THEN 1 ELSE 0
  IN SetLoop(X, ord, st, known, e0)

\* `reset` (protocol version 3): "all", option names (no '-'), menu ids (Menus: id -> names inside)
ResetNames(X, st, names) ==
  LET step(acc, n) ==
        IF n \in DOMAIN X.s THEN LET r == ResetSym(X, acc.U, acc.P, n) IN [acc EXCEPT !.U = r.U, !.P = r.P]
        ELSE IF n \in DOMAIN X.c THEN LET r == ResetChoice(X, acc.U, acc.P, n) IN [acc EXCEPT !.U = r.U, !.P = r.P]
        ELSE acc
  IN FoldLeft(step, st, names)

HandleReset(X, Menus, st, reset) ==
  IF \E k \in 1..Len(reset) : reset[k] = "all"
    THEN [st |-> [st EXCEPT !.U = [n \in DOMAIN X.s |-> NoVal], !.P = [c \in DOMAIN X.c |-> NoVal]], errs |-> 0]
  ELSE
    LET syms   == SelectSeq(reset, LAMBDA n : n \in DOMAIN X.s)
        menus  == SelectSeq(reset, LAMBDA n : n \in DOMAIN Menus)
        badS   == \E k \in 1..Len(reset) : reset[k] \notin DOMAIN X.s /\ reset[k] \notin DOMAIN Menus /\ reset[k] \notin DOMAIN X.c
        st1 == ResetNames(X, st, syms)
        st2 == FoldLeft(LAMBDA acc, m : ResetNames(X, acc, Menus[m]), st1, menus)
    IN [st |-> st2, errs |-> IF badS THEN 1 ELSE 0]

\* one request.  st = [U, P, I, path, files]: `path` is the index of the file last used by load
\* or save, `files` the content of every file the session can name.
Handle(X, ord, R, Menus, st, req) ==
  IF req.ver < 1 \/ req.ver > 3 THEN [st |-> st, errs |-> 1]
  ELSE
    LET lp == IF req.load = 0 THEN st.path ELSE req.load
        s1 == IF req.load >= 0
                THEN LET l == LoadPFrom(X, ord, R, st.files[lp], "sdkconfig", st.I)
                     IN [st EXCEPT !.U = l.U, !.P = l.P, !.I = l.I, !.path = lp]
                ELSE st
        r2 == IF req.set = <<>> THEN [st |-> s1, errs |-> 0] ELSE HandleSet(X, ord, s1, req.set)
        r3 == IF req.reset = <<>> THEN [st |-> r2.st, errs |-> 0]
              ELSE IF req.ver >= 3 THEN HandleReset(X, Menus, r2.st, req.reset)
              ELSE [st |-> r2.st, errs |-> 1]
        A3 == EvalI(X, ord, r3.st.U, r3.st.P, r3.st.I)
        sp == IF req.save = 0 THEN r3.st.path ELSE req.save
        s4 == IF req.save >= 0
                THEN [r3.st EXCEPT !.path = sp, !.files = [@ EXCEPT ![sp] = Render(X, A3, r3.st.U, r3.st.P)]]
                ELSE r3.st
    IN [st |-> s4, errs |-> r2.errs + r3.errs]

----------------------------------------------------------------------------
(* C15: requests whose parts may be arbitrary JSON.  A part is              *)
(*   ver   : <<"ok", n>> | <<"bad", kind>>                                  *)
(*   load, save : <<"absent">> | <<"null">> | <<"path", k>> | <<"bad", kind>> | <<"nofile", k>> *)
(*   set   : <<"absent">> | <<"bad", kind>> | <<"obj", seq of <<name, jv>>>> *)
(*   reset : <<"absent">> | <<"bad", kind>> | <<"list", seq of <<"s", id>> or <<"bad", kind>>>> *)
(* and a line is <<"req", record>> | <<"badjson">> | <<"nonobj", kind>>.     *)
(* The normative behaviour: every line gets exactly one reply; a part that  *)
(* cannot be applied is as if it had not been sent (and the rest of the     *)
(* request proceeds); a request without a usable version has no effect.     *)
PathPart(p) == IF p[1] = "null" THEN 0 ELSE IF p[1] = "path" THEN p[2] ELSE 0 - 1
Sanitize(line) ==
  IF line[1] # "req" \/ line[2].ver[1] # "ok"
    THEN [ver |-> 3, load |-> 0 - 1, set |-> <<>>, reset |-> <<>>, save |-> 0 - 1]
  ELSE LET r == line[2] IN
       [ver |-> r.ver[2], load |-> PathPart(r.load), save |-> PathPart(r.save),
        set |-> IF r.set[1] = "obj" THEN r.set[2] ELSE <<>>,
        reset |-> IF r.reset[1] = "list" /\ \A k \in 1..Len(r.reset[2]) : r.reset[2][k][1] = "s"
                    THEN [k \in 1..Len(r.reset[2]) |-> r.reset[2][k][2]] ELSE <<>>]

\* must the reply carry an error entry?  (wrong-typed values inside `set` may also be silently ignored)
MustReport(X, Menus, line) ==
  \/ line[1] # "req"
  \/ LET r == line[2] IN
     \/ r.ver[1] = "bad" \/ (r.ver[1] = "ok" /\ (r.ver[2] < 1 \/ r.ver[2] > 3))
     \/ r.load[1] \in {"bad", "nofile"} \/ r.save[1] \in {"bad", "nofile"}
     \/ r.set[1] = "bad" \/ r.reset[1] = "bad"
     \/ (r.set[1] = "obj" /\ \E k \in 1..Len(r.set[2]) : r.set[2][k][1] \notin DOMAIN X.s)
     \/ (r.reset[1] = "list" /\ r.ver[1] = "ok" /\ r.ver[2] = 3
         /\ \E k \in 1..Len(r.reset[2]) :
              r.reset[2][k][1] = "bad"
              \/ (r.reset[2][k][2] # "all" /\ r.reset[2][k][2] \notin DOMAIN X.s /\ r.reset[2][k][2] \notin DOMAIN Menus))
=============================================================================

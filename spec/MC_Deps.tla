------------------------------ MODULE MC_Deps ------------------------------
(* C09: for every program of the batch, the loop verdict of KDeps and the   *)
(* verdict(s) of the real loader (several constructions of the same text).  *)
EXTENDS Naturals, Integers, Sequences, FiniteSets, SequencesExt, TLC, Json, IOUtils

Data == JsonDeserialize(IOEnv.DEPS_DATA)
Tab  == Data.tab
INSTANCE KDeps WITH Num10 <- Tab.num10, Num16 <- Tab.num16, NumC <- Tab.numc,
                    DecStr <- Tab.decstr, HexStr <- Tab.hexstr, StrRank <- Tab.rank,
                    NumF <- Tab.numf, NormF <- Tab.normf, FCanon <- Tab.fcanon, HexPfx <- Tab.hexpfx

Progs == Data.progs
VARIABLES t, done
Init == t = 0 /\ done = FALSE
Next == t = 0 /\ t' \in 1..Len(Progs) /\ done' = TRUE
Spec == Init /\ [][Next]_<<t, done>>

Report ==
  t = 0 \/
  LET D == Flatten(Progs[t].prog)
      cyc == OnCycle(D)
      loop == cyc # {}
      o == Progs[t].obs
  IN
  /\ PrintT(<<"L", t, loop, cyc>>)
  \* every construction must give the specification's verdict
  /\ (\A k \in 1..Len(o.rejected) : o.rejected[k] = loop) \/ PrintT(<<"R-verdict", t, loop, o.rejected>>)
  \* a rejection names the loop: the message mentions an option that lies on a cycle
  /\ (~loop \/ \A k \in 1..Len(o.named) : ~o.rejected[k] \/ (ToSet(o.named[k]) \cap cyc # {}))
       \/ PrintT(<<"R-names", t, cyc, o.named>>)
=============================================================================

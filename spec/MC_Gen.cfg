SPECIFICATION Spec
VIEW View
INVARIANT All

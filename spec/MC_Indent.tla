------------------------------- MODULE MC_Indent -------------------------------
(* C18: for every (canonical or mangled) file of the batch, the specification's  *)
(* passes (CheckIndent) against the real validate_file(replace=True) passes, and *)
(* the property clauses on model and observations.                               *)
EXTENDS Naturals, Integers, Sequences, FiniteSets, SequencesExt, TLC, Json, IOUtils

Data == JsonDeserialize(IOEnv.INDENT_DATA)
INSTANCE CheckIndent

Files == Data.files
MaxPasses == Data.maxpasses
VARIABLES t, done
Init == t = 0 /\ done = FALSE
Next == t = 0 /\ t' \in 1..Len(Files) /\ done' = TRUE
Spec == Init /\ [][Next]_<<t, done>>

F == Files[t]
Check ==
  LET ps == Passes(F.lines, MaxPasses)
      o == F.obs
      say(tag, a, b) == PrintT(<<tag, t, a, b>>)
      n == Len(ps)
      specShapes == [k \in 1..n |-> Shape(ps[k].file)]
      specOk == [k \in 1..n |-> ps[k].ok]
  IN
  \* ---- model level
  /\ (~F.canonical \/ (n = 1 /\ ps[1].ok /\ ps[1].file = F.lines) \/ say("D-CanonicalOK", Shape(F.lines), specShapes))
  /\ (ps[n].ok \/ say("D-Converges", n, specOk))
  /\ (~ps[n].ok \/ Pass(ps[n].file).file = ps[n].file \/ say("D-Idempotent", n, 0))
  \* ---- conformance: pass by pass
  /\ (specOk = o.ok \/ say("R-verdicts", specOk, o.ok))
  /\ (specOk # o.ok \/ specShapes = o.shapes \/ say("R-shapes", specShapes, o.shapes))
  \* ---- the property on the observations
  /\ (~F.canonical \/ (o.ok = <<TRUE>> /\ o.unchanged /\ ~o.new_left) \/ say("P-CanonicalOK", o.ok, <<o.unchanged, o.new_left>>))
  /\ (o.ok[Len(o.ok)] \/ say("P-Converges", Len(o.ok), o.ok))
  /\ (o.idempotent \/ say("P-Idempotent", o.ok, <<>>))
  /\ (o.same_program \/ say("P-SameProgram", o.program_diff, <<>>))
All == t = 0 \/ Check
=============================================================================

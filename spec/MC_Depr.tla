-------------------------------- MODULE MC_Depr --------------------------------
(* C19: for every universe of the batch, every order of checking every subset  *)
(* of its files (explored by TLC); ScopeExact / MemoSound / LocalSound on every *)
(* reachable state; the verdicts and the memo observed on the real functions    *)
(* for each order are compared at the end of the order.                         *)
EXTENDS Naturals, Sequences, FiniteSets, SequencesExt, TLC, Json, IOUtils

Data == JsonDeserialize(IOEnv.DEPR_DATA)
Us == Data.universes

VARIABLES t, st, hist
vars == <<t, st, hist>>

U == Us[t]
DirsOf(u) == ToSet(u.dirs)
FilesOf(u) == [k \in 1..Len(u.files) |-> [dir |-> u.files[k].dir, uses |-> ToSet(u.files[k].uses)]]
RenOf(u) == [d \in DirsOf(u) |-> ToSet(u.rename[d])]

D(u) == INSTANCE DeprScope WITH Dirs <- DirsOf(u), Parent <- u.parent, IsProject <- u.isproject,
                                RenameAt <- RenOf(u), WalkOrder <- u.dirs, IdfRoot <- u.idf, Components <- u.components, Files <- FilesOf(u),
                                Explicit <- ToSet(u.explicit), Includes <- ToSet(u.includes)

Init == t \in 1..Len(Us) /\ st = D(Us[t])!InitState /\ hist = <<>>
Next == \E f \in 1..Len(U.files) :
          /\ \A k \in 1..Len(hist) : hist[k] # f
          /\ st' = D(U)!CheckFile(st, f) /\ hist' = Append(hist, f) /\ t' = t
Spec == Init /\ [][Next]_vars

ScopeExactInv == D(U)!ScopeExact(st)
MemoSoundInv  == D(U)!MemoSound(st)
LocalSoundInv == D(U)!LocalSound(st)

\* conformance: the harness ran every order; compare where an observation exists
Key == ToString(hist)
Conform ==
  LET obs == U.obs IN
  Key \notin DOMAIN obs \/
  LET o == obs[Key]
      vs == [f \in 1..Len(U.files) |-> st.verdict[f]]
      ms == [k \in 1..Len(U.dirs) |-> st.memo[U.dirs[k]]]
  IN /\ (vs = o.verdict \/ PrintT(<<"R-verdict", t, hist, vs, o.verdict>>))
     /\ (ms = o.memo \/ PrintT(<<"R-memo", t, hist, ms, o.memo>>))
     /\ (\A f \in 1..Len(U.files) : o.verdict[f] = D(U)!Unset \/ (o.verdict[f] = "ok") = D(U)!ExpectedOK(f))
          \/ PrintT(<<"P-ScopeExact", t, hist, o.verdict, [f \in 1..Len(U.files) |-> D(U)!ExpectedOK(f)]>>)
=============================================================================

------------------------------ MODULE DeprScope ------------------------------
(***************************************************************************)
(* kconfcheck --check deprecated: which rename files apply to a defaults   *)
(* file (C19).  A universe is a directory tree:                            *)
(*   Dirs (strings), Parent (dir -> dir; the file-system root is its own   *)
(*   parent), IsProject (dir -> BOOLEAN), RenameAt (dir -> set of old      *)
(*   names defined by an sdkconfig.rename there), WalkOrder (sequence of   *)
(*   all dirs, parents first), IdfRoot, Components (IdfRoot/components or   *)
(*   a name outside Dirs), Files (sequence of                              *)
(*   [dir, uses (set of names)]), Explicit / Includes (rename files named   *)
(*   on the command line / directories given with --includes: global).     *)
(* State: memo (the shared project-root cache), local / built (lazily built *)
(* per-project sets), verdict.  Check(f) follows _find_project_root (walk  *)
(* up, reuse memo, back-fill) and check_deprecated_options.                *)
(***************************************************************************)
EXTENDS Naturals, Sequences, FiniteSets, SequencesExt, TLC

CONSTANTS Dirs, Parent, IsProject, RenameAt, WalkOrder, IdfRoot, Components, Files,
          Explicit,   \* directories whose sdkconfig.rename is named on the command line
          Includes    \* directories given with --includes

Unset == "<unset>"
None  == "<none>"

\* ---- the definition the property states (no memo)
RECURSIVE NearestRoot(_)
NearestRoot(d) == IF IsProject[d] THEN d ELSE IF Parent[d] = d THEN None ELSE NearestRoot(Parent[d])
RECURSIVE Under(_, _)
Under(d, root) == d = root \/ (Parent[d] # d /\ Under(Parent[d], root))
LocalExact(root) == UNION {RenameAt[d] : d \in {e \in Dirs : Under(e, root) /\ NearestRoot(e) = root}}
GlobalSet ==
  RenameAt[IdfRoot] \cup UNION {RenameAt[d] : d \in {e \in Dirs : Components \in Dirs /\ Under(e, Components)}}
  \cup UNION {RenameAt[d] : d \in Explicit}                                   \* asked for by name: applies everywhere
  \cup UNION {RenameAt[d] : d \in {e \in Dirs : \E i \in Includes : Under(e, i)}} \* found below an included directory
ScopeOf(f) ==
  LET r == NearestRoot(Files[f].dir) IN
  GlobalSet \cup (IF r # None /\ r # IdfRoot THEN LocalExact(r) ELSE {})
ExpectedOK(f) == ScopeOf(f) \cap Files[f].uses = {}

\* ---- the implementation's algorithm
RECURSIVE Climb(_, _, _)
Climb(memo, path, checked) ==   \* [root, memo']
  IF memo[path] # Unset
    THEN [root |-> memo[path], memo |-> [d \in Dirs |-> IF d \in checked THEN memo[path] ELSE memo[d]]]
  ELSE LET ch == checked \cup {path} IN
       IF IsProject[path] THEN [root |-> path, memo |-> [d \in Dirs |-> IF d \in ch THEN path ELSE memo[d]]]
       ELSE IF Parent[path] = path THEN [root |-> None, memo |-> [d \in Dirs |-> IF d \in ch THEN None ELSE memo[d]]]
       ELSE Climb(memo, Parent[path], ch)
FindRoot(memo, d) == Climb(memo, d, {})

BuildLocal(memo, root) ==   \* [set, memo']: os.walk below root, in walk order
  LET ds == SelectSeq(WalkOrder, LAMBDA d : Under(d, root) /\ RenameAt[d] # {})
      step(acc, d) ==
        LET r == FindRoot(acc.memo, d) IN
        [set |-> IF r.root = root THEN acc.set \cup RenameAt[d] ELSE acc.set, memo |-> r.memo]
  IN FoldLeft(step, [set |-> {}, memo |-> memo], ds)

CheckFile(st, f) ==
  LET r == FindRoot(st.memo, Files[f].dir)
      needLocal == r.root # None /\ r.root # IdfRoot
      b == IF needLocal /\ r.root \notin st.built THEN BuildLocal(r.memo, r.root)
           ELSE [set |-> IF needLocal THEN st.local[r.root] ELSE {}, memo |-> r.memo]
      eff == GlobalSet \cup b.set
  IN [memo |-> b.memo,
      local |-> IF needLocal THEN [st.local EXCEPT ![r.root] = b.set] ELSE st.local,
      built |-> IF needLocal THEN st.built \cup {r.root} ELSE st.built,
      verdict |-> [st.verdict EXCEPT ![f] = IF eff \cap Files[f].uses = {} THEN "ok" ELSE "flagged"]]

InitState == [memo |-> [d \in Dirs |-> Unset], local |-> [d \in Dirs |-> {}], built |-> {}, verdict |-> [f \in 1..Len(Files) |-> Unset]]

\* ---- the property on a state
ScopeExact(st) == \A f \in 1..Len(Files) : st.verdict[f] # Unset => (st.verdict[f] = "ok") = ExpectedOK(f)
MemoSound(st) == \A d \in Dirs : st.memo[d] # Unset => st.memo[d] = NearestRoot(d)
LocalSound(st) == \A d \in st.built : st.local[d] = LocalExact(d)
=============================================================================

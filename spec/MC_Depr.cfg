SPECIFICATION Spec
INVARIANT ScopeExactInv
INVARIANT MemoSoundInv
INVARIANT LocalSoundInv
INVARIANT Conform

-------------------------------- MODULE KEval --------------------------------
(***************************************************************************)
(* The value of every option of a Kconfig program in a configuration, as   *)
(* prescribed by the language description (docs/en/kconfiglib/language.rst,*)
(* defaults.rst) — the oracle for C01, C05, C06 and the evaluation core of *)
(* the store / server / menu specifications.                               *)
(*                                                                         *)
(* A program is a sequence of nested entries (records, from JSON):         *)
(*   [k |-> "config", name, type, prompt (<<>> or <<cond>>), dep,          *)
(*    defaults (seq of [v, c]), ranges (seq of [lo, hi, c]),               *)
(*    selects / implies (seq of [t, c]), sets / wsets (seq of [t, v, c])]  *)
(*   [k |-> "menu", dep, visif, children]   [k |-> "if", c, children]      *)
(*   [k |-> "choice", id, prompt, dep, defaults (seq of [m, c]), children] *)
(*   [k |-> "comment", dep]                                                *)
(* Expressions are nested tuples: <<"y">> <<"n">> <<"s", name>>            *)
(* <<"c", literal>> <<"ch", choice id>> <<"!", e>> <<"&&", a, b>>          *)
(* <<"||", a, b>> and relations <<op, x, y>> with op in = != < <= > >=     *)
(* over atoms <<"s", name>> / <<"c", literal>>.                            *)
(* Values are strings, exactly as the tool prints them; their numeric      *)
(* meaning comes from lookup tables over a finite literal universe.        *)
(***************************************************************************)
EXTENDS Naturals, Integers, Sequences, FiniteSets, SequencesExt, TLC

CONSTANTS Num10,   \* literal -> integer it denotes as a base-10 integer (domain: valid ones)
          Num16,   \* literal -> integer it denotes in base 16 (with or without 0x)
          NumC,    \* literal -> integer when it stands as a constant in a relation (0x.. is hex)
          DecStr,  \* ToString(integer) -> canonical decimal text
          HexStr,  \* ToString(integer) -> canonical hex text (0x..)
          StrRank, \* string -> rank in lexicographic order
          NumF,    \* literal -> rank of the finite float it denotes (order-preserving integer)
          NormF,   \* literal -> normalised float text ("5" -> "5.0")
          FCanon,  \* ToString(rank) -> normalised float text
          HexPfx   \* literal -> the same literal with a 0x prefix (as the menuconfig input dialog adds it)

NoVal == "<none>"
MinI(a, b) == IF a < b THEN a ELSE b
MaxI(a, b) == IF a > b THEN a ELSE b
And(a, b) == <<"&&", a, b>>
YES == <<"y">>

----------------------------------------------------------------------------
(* Flattening: what an option inherits from the entries that enclose it.   *)
(* `depends on` of enclosing menus, `if` conditions and choice membership  *)
(* are ANDed into every condition of the option (prompt, default, range,   *)
(* select, imply, set, set default); `visible if` of enclosing menus is    *)
(* ANDed into prompts only.                                                *)

CondSeq(seq, d) == [i \in 1..Len(seq) |-> [seq[i] EXCEPT !.c = And(@, d)]]

MkSym(e, dep, vis, ch) ==
  LET d == And(e.dep, dep) IN
  [kind |-> "sym", name |-> e.name, type |-> e.type, dep |-> d, ch |-> ch,
   ctx |-> IF e.prompt = <<>> THEN <<>> ELSE <<And(vis, d)>>,     \* what must hold for the prompt to exist at all
   prompts  |-> IF e.prompt = <<>> THEN <<>> ELSE <<And(e.prompt[1], And(vis, d))>>,
   defaults |-> CondSeq(e.defaults, d), ranges |-> CondSeq(e.ranges, d),
   selects  |-> CondSeq(e.selects, d),  implies |-> CondSeq(e.implies, d),
   sets     |-> CondSeq(e.sets, d),     wsets   |-> CondSeq(e.wsets, d)]

MkChoice(e, dep, vis) ==
  LET d == And(e.dep, dep) IN
  [kind |-> "choice", name |-> e.id, dep |-> d,
   prompts  |-> IF e.prompt = <<>> THEN <<>> ELSE <<And(e.prompt[1], And(vis, d))>>,
   defaults |-> CondSeq(e.defaults, d)]

RECURSIVE FlatSeq(_, _, _, _)
FlatOne(e, dep, vis, ch) ==
  CASE e.k = "config"  -> <<MkSym(e, dep, vis, ch)>>
    [] e.k = "menu"    -> FlatSeq(e.children, And(e.dep, dep), And(e.visif, vis), "")
    [] e.k = "if"      -> FlatSeq(e.children, And(e.c, dep), vis, ch)
    [] e.k = "choice"  -> <<MkChoice(e, dep, vis)>> \o FlatSeq(e.children, <<"ch", e.id>>, vis, e.id)
    [] OTHER           -> <<>>
FlatSeq(es, dep, vis, ch) ==
  IF es = <<>> THEN <<>> ELSE FlatOne(Head(es), dep, vis, ch) \o FlatSeq(Tail(es), dep, vis, ch)

Flatten(prog) == FlatSeq(prog, YES, YES, "")

----------------------------------------------------------------------------
(* Lookups in a flattened program D.                                       *)
SymDefs(D, n) == SelectSeq(D, LAMBDA d : d.kind = "sym" /\ d.name = n)
ChDefs(D, c)  == SelectSeq(D, LAMBDA d : d.kind = "choice" /\ d.name = c)
Defined(D, n) == SymDefs(D, n) # <<>>
TypeOf(D, n)  == IF Defined(D, n) THEN SymDefs(D, n)[1].type ELSE "unknown"
ChoiceOf(D, n) == IF Defined(D, n) THEN SymDefs(D, n)[1].ch ELSE ""
SymNames(D) == LET s == SelectSeq(D, LAMBDA d : d.kind = "sym") IN
               LET step(acc, d) == IF \E i \in 1..Len(acc) : acc[i] = d.name THEN acc ELSE Append(acc, d.name)
               IN FoldLeft(step, <<>>, s)
ChoiceIds(D) == LET s == SelectSeq(D, LAMBDA d : d.kind = "choice") IN
                LET step(acc, d) == IF \E i \in 1..Len(acc) : acc[i] = d.name THEN acc ELSE Append(acc, d.name)
                IN FoldLeft(step, <<>>, s)
Members(D, c) == SelectSeq(SymNames(D), LAMBDA n : ChoiceOf(D, n) = c)

Concat(seqs) == FoldLeft(LAMBDA acc, s : acc \o s, <<>>, seqs)
Prompts(defs)  == Concat([i \in 1..Len(defs) |-> defs[i].prompts])
Defaults(defs) == Concat([i \in 1..Len(defs) |-> defs[i].defaults])
Ranges(defs)   == Concat([i \in 1..Len(defs) |-> defs[i].ranges])

\* reverse properties: every (source, entry) in program order whose target is n
RevOf(D, n, field) ==
  LET syms == SelectSeq(D, LAMBDA d : d.kind = "sym")
      one(d) == LET es == SelectSeq(d[field], LAMBDA x : x.t = n)
                IN [i \in 1..Len(es) |-> [src |-> d.name, e |-> es[i]]]
  IN Concat([i \in 1..Len(syms) |-> one(syms[i])])

----------------------------------------------------------------------------
(* Index of a flattened program: everything Core needs about one option,  *)
(* gathered once (definitions merged in program order).                    *)
Index(D) ==
  LET ns == SymNames(D)
      cs == ChoiceIds(D) IN
  [syms |-> ns, chs |-> cs,
   s |-> [n \in {ns[k] : k \in 1..Len(ns)} |->
            LET defs == SymDefs(D, n) IN
            [type |-> defs[1].type, ch |-> defs[1].ch,
             prompts |-> Prompts(defs), deps |-> [k \in 1..Len(defs) |-> defs[k].dep],
             ctx |-> Concat([k \in 1..Len(defs) |-> defs[k].ctx]),
             defaults |-> Defaults(defs), ranges |-> Ranges(defs),
             selects |-> RevOf(D, n, "selects"), implies |-> RevOf(D, n, "implies"),
             sets |-> RevOf(D, n, "sets"), wsets |-> RevOf(D, n, "wsets")]],
   c |-> [c \in {cs[k] : k \in 1..Len(cs)} |->
            LET defs == ChDefs(D, c) IN
            [prompts |-> Prompts(defs), defaults |-> Defaults(defs), members |-> Members(D, c),
             deps |-> [k \in 1..Len(defs) |-> defs[k].dep]]]]

----------------------------------------------------------------------------
(* Evaluation.  X: Index of the program.  U: option name -> user value or  *)
(* NoVal.  P: choice id -> picked member or NoVal.  Options are evaluated  *)
(* in a dependency order `ord` (entries <<"s", name>> / <<"ch", id>>): the *)
(* context A accumulates, per option, its Core record, and per choice its  *)
(* mode and selection.  Looking up an option that has not been evaluated   *)
(* yet is an error (the order is wrong), never a silent default.           *)

IsNum(type, s) == IF type = "hex" THEN s \in DOMAIN Num16
                  ELSE IF type = "float" THEN s \in DOMAIN NumF ELSE s \in DOMAIN Num10
NumOf(type, s) == IF type = "hex" THEN Num16[s] ELSE IF type = "float" THEN NumF[s] ELSE Num10[s]
Zero(type) == IF type = "float" THEN NumF["0.0"] ELSE 0
NumOr0(type, s) == IF IsNum(type, s) THEN NumOf(type, s) ELSE Zero(type)
Canon(type, n) == IF type = "hex" THEN HexStr[ToString(n)]
                  ELSE IF type = "float" THEN FCanon[ToString(n)] ELSE DecStr[ToString(n)]
\* float values are carried in normalised form
Norm(type, s) == IF type = "float" /\ s \in DOMAIN NormF THEN NormF[s] ELSE s

DefinedX(X, n) == n \in DOMAIN X.s
TypeX(X, n) == IF DefinedX(X, n) THEN X.s[n].type ELSE "unknown"

\* the text an atom stands for: an option's value, an undefined name itself, a literal
\* (the constants y / n may also stand as operands, e.g. after folding: they are bools)
AtomStr(X, A, a) == IF a[1] = "s" THEN (IF DefinedX(X, a[2]) THEN A.core[a[2]].val ELSE a[2])
                    ELSE IF a[1] \in {"y", "n"} THEN a[1] ELSE a[2]
AtomType(X, a) == IF a[1] = "s" THEN TypeX(X, a[2]) ELSE IF a[1] \in {"y", "n"} THEN "bool" ELSE "unknown"

\* an atom as a number, <<ok, n>>: bool n/y count as 0/2; int/hex options in their base;
\* strings, constants and undefined names by their literal form
AtomNum(X, A, a) ==
  LET t == AtomType(X, a)
      s == AtomStr(X, A, a) IN
  IF t = "bool" THEN <<TRUE, IF s = "y" THEN 2 ELSE 0>>
  ELSE IF t = "int" THEN (IF s \in DOMAIN Num10 THEN <<TRUE, Num10[s]>> ELSE <<FALSE, 0>>)
  ELSE IF t = "hex" THEN (IF s \in DOMAIN Num16 THEN <<TRUE, Num16[s]>> ELSE <<FALSE, 0>>)
  ELSE IF s \in DOMAIN NumC THEN <<TRUE, NumC[s]>> ELSE <<FALSE, 0>>

Sign(x) == IF x < 0 THEN 0 - 1 ELSE IF x > 0 THEN 1 ELSE 0
RelCmp(X, A, x, y) ==   \* -1 / 0 / 1
  LET sx == AtomStr(X, A, x)
      sy == AtomStr(X, A, y)
      strcmp == IF sx = sy THEN 0 ELSE Sign(StrRank[sx] - StrRank[sy]) IN
  IF AtomType(X, x) = "string" /\ AtomType(X, y) = "string" THEN strcmp
  ELSE LET nx == AtomNum(X, A, x)
           ny == AtomNum(X, A, y)
       IN IF nx[1] /\ ny[1] THEN Sign(nx[2] - ny[2]) ELSE strcmp

RECURSIVE EvalE(_, _, _)
EvalE(X, A, e) ==
  LET op == e[1] IN
  CASE op = "y"  -> 2
    [] op = "n"  -> 0
    [] op = "s"  -> IF TypeX(X, e[2]) = "bool" /\ A.core[e[2]].val = "y" THEN 2 ELSE 0
    [] op = "c"  -> 0
    [] op = "ch" -> A.mode[e[2]]
    [] op = "!"  -> 2 - EvalE(X, A, e[2])
    [] op = "&&" -> LET a == EvalE(X, A, e[2]) IN IF a = 0 THEN 0 ELSE MinI(a, EvalE(X, A, e[3]))
    [] op = "||" -> LET a == EvalE(X, A, e[2]) IN IF a = 2 THEN 2 ELSE MaxI(a, EvalE(X, A, e[3]))
    [] OTHER ->
         LET c == RelCmp(X, A, e[2], e[3]) IN
         IF (op = "="  /\ c = 0) \/ (op = "!=" /\ c # 0) \/ (op = "<" /\ c < 0)
            \/ (op = "<=" /\ c <= 0) \/ (op = ">" /\ c > 0) \/ (op = ">=" /\ c >= 0)
         THEN 2 ELSE 0

FirstTrue(X, A, seq) ==   \* index of the first entry whose condition holds, 0 if none
  LET idx == {i \in 1..Len(seq) : EvalE(X, A, seq[i].c) = 2}
  IN IF idx = {} THEN 0 ELSE CHOOSE i \in idx : \A j \in idx : i <= j

\* prompt visibility: the maximum over the definitions that have a prompt
VisOf(X, A, ps) == IF \E i \in 1..Len(ps) : EvalE(X, A, ps[i]) = 2 THEN 2 ELSE 0
DirectDep(X, A, n) == LET ds == X.s[n].deps IN IF \E i \in 1..Len(ds) : EvalE(X, A, ds[i]) = 2 THEN 2 ELSE 0

\* enabled reverse properties (the source is a bool at y and the condition holds)
RevOn(X, A, rs) ==
  SelectSeq(rs, LAMBDA r : TypeX(X, r.src) = "bool" /\ A.core[r.src].val = "y" /\ EvalE(X, A, r.e.c) = 2)

\* Defaults injected by a load under policy `sdkconfig` (KStore.LoadP): the option's defaults are
\* replaced by the stored value, which holds wherever the option is defined at all: under the
\* dependencies of any one of its definitions (A.inj.s / A.inj.c).
RECURSIVE OrAll(_)
OrAll(es) == IF es = <<>> THEN <<"n">> ELSE IF Len(es) = 1 THEN Head(es) ELSE <<"||", Head(es), OrAll(Tail(es))>>
InjAtom(type, v) == IF type = "bool" THEN <<v>> ELSE <<"c", v>>
DefaultsOf(X, A, n) ==
  IF A.inj.s[n] # NoVal THEN <<[v |-> InjAtom(X.s[n].type, A.inj.s[n]), c |-> OrAll(X.s[n].deps)]>>
  ELSE X.s[n].defaults
ChDefaultsOf(X, A, c) ==
  IF A.inj.c[c] # NoVal THEN <<[m |-> A.inj.c[c], c |-> OrAll(X.c[c].deps)]>> ELSE X.c[c].defaults

\* choice: the user's pick if visible, else the first default whose condition holds and whose
\* member is visible, else the first visible member, else nothing
MemberVis(X, A, m) == VisOf(X, A, X.s[m].prompts)
SelOf(X, A, P, c) ==   \* A.mode[c] is already known
  IF A.mode[c] # 2 THEN NoVal
  ELSE IF P[c] # NoVal /\ MemberVis(X, A, P[c]) = 2 THEN P[c]
  ELSE LET ds == ChDefaultsOf(X, A, c)
           ms == X.c[c].members
           \* (a default naming something that is not a member of the choice selects nothing)
           ok == {i \in 1..Len(ds) : (\E j \in 1..Len(ms) : ms[j] = ds[i].m)
                                      /\ EvalE(X, A, ds[i].c) = 2 /\ MemberVis(X, A, ds[i].m) = 2}
           vm == {i \in 1..Len(ms) : MemberVis(X, A, ms[i]) = 2}
       IN IF ok # {} THEN ds[CHOOSE i \in ok : \A j \in ok : i <= j].m
          ELSE IF vm # {} THEN ms[CHOOSE i \in vm : \A j \in vm : i <= j]
          ELSE NoVal

\* [val, vis, written, forced, src, asg]
\*   src in "set" "user" "wset" "default" "none" "select" "imply" "choice"
Core(X, A, U, n) ==
  LET S    == X.s[n]
      type == S.type
      vis  == VisOf(X, A, S.prompts)
      u    == U[n]
  IN
  IF type = "bool" THEN
    IF S.ch # "" THEN
      LET on == vis = 2 /\ A.sel[S.ch] = n IN
      [val |-> IF on THEN "y" ELSE "n", vis |-> vis, written |-> vis = 2, forced |-> FALSE,
       src |-> "choice", asg |-> IF vis = 2 THEN "y" ELSE ""]
    ELSE
      LET sel  == RevOn(X, A, S.selects) # <<>>
          imp  == RevOn(X, A, S.implies) # <<>> /\ DirectDep(X, A, n) = 2 /\ A.inj.s[n] = NoVal   \* an injected default displaces imply
          ds   == DefaultsOf(X, A, n)
          di   == FirstTrue(X, A, ds)
          dval == IF di = 0 THEN 0 ELSE EvalE(X, A, ds[di].v)
          useU == vis = 2 /\ u # NoVal
          base == IF useU THEN (IF u = "y" THEN 2 ELSE 0)
                  ELSE IF imp THEN 2 ELSE dval
          val  == IF sel THEN 2 ELSE base
      IN [val |-> IF val = 2 THEN "y" ELSE "n", vis |-> vis,
          written |-> vis = 2 \/ sel \/ (~useU /\ (imp \/ dval = 2)),
          forced |-> FALSE,
          src |-> IF sel THEN "select" ELSE IF useU THEN "user" ELSE IF imp THEN "imply"
                  ELSE IF di # 0 THEN "default" ELSE "none",
          asg |-> IF vis # 2 THEN "" ELSE IF sel THEN "y" ELSE "ny"]
  ELSE
    LET num   == type \in {"int", "hex", "float"}
        rs    == S.ranges
        ri    == FirstTrue(X, A, rs)
        lo    == IF ri = 0 THEN 0 ELSE NumOr0(type, AtomStr(X, A, rs[ri].lo))
        hi    == IF ri = 0 THEN 0 ELSE NumOr0(type, AtomStr(X, A, rs[ri].hi))
        sets  == RevOn(X, A, S.sets)
        forced == sets # <<>>
        wsets == IF DirectDep(X, A, n) = 2 /\ A.inj.s[n] = NoVal THEN RevOn(X, A, S.wsets) ELSE <<>>   \* ... and `set default`
        lit(r) == IF num THEN Norm(type, r.e.v[2]) ELSE AtomStr(X, A, r.e.v)
        userOk == vis = 2 /\ u # NoVal
                  /\ (num => (IsNum(type, u) /\ (ri = 0 \/ (lo <= NumOf(type, u) /\ NumOf(type, u) <= hi))))
        ds    == DefaultsOf(X, A, n)
        di    == FirstTrue(X, A, ds)
        raw   == IF forced THEN [v |-> lit(sets[1]), s |-> "set"]
                 ELSE IF userOk THEN [v |-> u, s |-> "user"]
                 ELSE IF wsets # <<>> THEN [v |-> lit(wsets[1]), s |-> "wset"]
                 ELSE IF di # 0 THEN [v |-> Norm(type, AtomStr(X, A, ds[di].v)), s |-> "default"]
                 ELSE [v |-> "", s |-> "none"]
        nval  == NumOr0(type, raw.v)
        val   == IF num /\ ri # 0 /\ nval < lo THEN Canon(type, lo)
                 ELSE IF num /\ ri # 0 /\ nval > hi THEN Canon(type, hi)
                 ELSE raw.v
    IN [val |-> val, vis |-> vis, written |-> vis = 2 \/ raw.s \in {"set", "wset", "default"},
        forced |-> forced, src |-> raw.s, asg |-> ""]

NoInj(X) == [s |-> [n \in DOMAIN X.s |-> NoVal], c |-> [c \in DOMAIN X.c |-> NoVal]]
EmptyCtx(I) == [core |-> <<>>, mode |-> <<>>, sel |-> <<>>, inj |-> I]

Step(X, U, P, A, o) ==
  IF o[1] = "s"
    THEN [A EXCEPT !.core = (o[2] :> Core(X, A, U, o[2])) @@ @]
    ELSE LET A1 == [A EXCEPT !.mode = (o[2] :> VisOf(X, A, X.c[o[2]].prompts)) @@ @]
         IN [A1 EXCEPT !.sel = (o[2] :> SelOf(X, A1, P, o[2])) @@ @]

\* the whole configuration: per option its Core record, per choice mode and selection
EvalI(X, ord, U, P, I) == FoldLeft(LAMBDA A, o : Step(X, U, P, A, o), EmptyCtx(I), ord)
Eval(X, ord, U, P) == EvalI(X, ord, U, P, NoInj(X))

----------------------------------------------------------------------------
(* Derived observations.                                                   *)

\* the value the sdkconfig carries for the option: "absent" when no line is written
LineOf(c) == IF c.written THEN c.val ELSE "absent"

\* `# default:` marker: no prompt at all, or no (effective) user value; a choice member follows
\* its choice: marked exactly when the choice has no user pick (a user value n of the member
\* itself changes nothing about where its value comes from)
Marked(X, A, U, P, n) ==
  \/ X.s[n].prompts = <<>>
  \/ IF X.s[n].ch = "" THEN U[n] = NoVal \/ A.core[n].forced
                       ELSE P[X.s[n].ch] = NoVal

Valuation(X, A) ==
  [i \in 1..Len(X.syms) |->
     LET c == A.core[X.syms[i]] IN
     [name |-> X.syms[i], val |-> c.val, vis |-> c.vis, asg |-> c.asg, line |-> LineOf(c)]]

Selections(X, A) == [i \in 1..Len(X.chs) |-> [id |-> X.chs[i], sel |-> A.sel[X.chs[i]]]]
=============================================================================

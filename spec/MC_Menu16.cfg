SPECIFICATION Spec
VIEW View
ACTION_CONSTRAINT Emit
INVARIANT Clean
INVARIANT SavedClean
INVARIANT ToolFileClean

SPECIFICATION Spec
INVARIANT All

----------------------------- MODULE MC_Server15 -----------------------------
(* C15: the server answers every line and survives bad ones.  For each      *)
(* session the specification folds the sanitised requests (KServer) and the *)
(* configuration saved at the end must be the one the real server saved;    *)
(* one reply per line, pure stdout, liveness and error reporting are        *)
(* evaluated on the observations.                                           *)
EXTENDS Naturals, Integers, Sequences, FiniteSets, SequencesExt, TLC, Json, IOUtils

Data == JsonDeserialize(IOEnv.SRV_DATA)
Tab  == Data.tab
INSTANCE KServer WITH Num10 <- Tab.num10, Num16 <- Tab.num16, NumC <- Tab.numc,
                      DecStr <- Tab.decstr, HexStr <- Tab.hexstr, StrRank <- Tab.rank,
                      NumF <- Tab.numf, NormF <- Tab.normf, FCanon <- Tab.fcanon, HexPfx <- Tab.hexpfx

Pg == Data.prog
VARIABLES i, x
vars == <<i, x>>
View == <<i>>
Init == i = 0 /\ x = Index(Flatten(Pg.prog))
Next == i = 0 /\ x' = x /\ i' \in 1..Len(Data.sessions)
Spec == Init /\ [][Next]_vars

Se == Data.sessions[i]
Start ==
  LET files == [k \in 1..Len(Pg.files) |-> Pg.files[k]]
      l == Load(x, <<>>, files[1], TRUE, NoUser(x).U, NoUser(x).P)
  IN [U |-> l.U, P |-> l.P, I |-> NoInj(x), path |-> 1, files |-> files]

Final == FoldLeft(LAMBDA st, ln : Handle(x, Pg.ord, <<>>, Pg.menus, st, Sanitize(ln)).st, Start, Se.lines)
Triples(F) == [k \in 1..Len(F) |-> <<F[k].n, F[k].v, F[k].d>>]

Check ==
  LET o == Se.obs
      say(tag, a, b) == PrintT(<<tag, i, a, b>>)
      fin == Final
      saved == fin.files[Se.final_path]
  IN
  /\ (~o.died \/ say("P-Alive", o.died_at, o.exception))
  /\ (o.died \/ o.nlines = Len(Se.lines) + 1 \/ say("P-OneReply", Len(Se.lines) + 1, o.nlines))
  /\ (o.pure \/ say("P-StdoutPure", o.impure_line, ""))
  /\ (o.died \/ Triples(saved) = o.saved \/ say("R-BadPartInert", Triples(saved), o.saved))
  \* ... and the file the session started on holds what the session wrote there (`save: null` goes to the
  \* path last used by a request that was carried out)
  /\ (o.died \/ Triples(fin.files[1]) = o.first \/ say("R-SavedWhere", Triples(fin.files[1]), o.first))
  /\ (o.died \/ o.nlines # Len(Se.lines) + 1
      \/ (\A k \in 1..Len(Se.lines) : MustReport(x, Pg.menus, Se.lines[k]) => o.errors[k])
      \/ say("P-ErrorsListed", [k \in 1..Len(Se.lines) |-> MustReport(x, Pg.menus, Se.lines[k])], o.errors))

All == i = 0 \/ Check
=============================================================================

-------------------------------- MODULE MC_Docs --------------------------------
(* C20: per program (one docs target each) and per configuration the user can   *)
(* reach: the folded conditions the real generator produced keep the truth      *)
(* value of the originals (FoldSound on observations), the specification's own  *)
(* fold does too (model), both folds agree, options omitted from the document   *)
(* are invisible in every reachable configuration, references resolve.          *)
EXTENDS Naturals, Integers, Sequences, FiniteSets, SequencesExt, TLC, Json, IOUtils

Data == JsonDeserialize(IOEnv.DOCS_DATA)
Tab  == Data.tab
INSTANCE DocFold WITH Num10 <- Tab.num10, Num16 <- Tab.num16, NumC <- Tab.numc,
                      DecStr <- Tab.decstr, HexStr <- Tab.hexstr, StrRank <- Tab.rank,
                      NumF <- Tab.numf, NormF <- Tab.normf, FCanon <- Tab.fcanon, HexPfx <- Tab.hexpfx

Progs == Data.progs
RECURSIVE ProdFrom(_, _)
ProdFrom(vs, k) == IF k > Len(vs) THEN 1 ELSE Len(vs[k].cands) * ProdFrom(vs, k + 1)
Total(t) == ProdFrom(Progs[t].vars, 1)
PickOf(vs, idx, k) == vs[k].cands[(((idx - 1) \div ProdFrom(vs, k + 1)) % Len(vs[k].cands)) + 1]

VARIABLES t, i, x
vars == <<t, i, x>>
View == <<t, i>>
Pg == Progs[t]
Init == t \in 1..Len(Progs) /\ i = 0 /\ x = Index(Flatten(Progs[t].prog))
Next == i = 0 /\ t' = t /\ x' = x /\ i' \in 1..Total(t)
Spec == Init /\ [][Next]_vars

VarIdx(vs, n) == {k \in 1..Len(vs) : vs[k].n = n /\ vs[k].kind = "sym"}
U0 == [n \in DOMAIN x.s |-> LET ks == VarIdx(Pg.vars, n) IN IF ks = {} THEN NoVal ELSE PickOf(Pg.vars, i, CHOOSE k \in ks : TRUE)]
VarIdxC(vs, c) == {k \in 1..Len(vs) : vs[k].n = c /\ vs[k].kind = "choice"}
P0 == [c \in DOMAIN x.c |-> LET ks == VarIdxC(Pg.vars, c) IN IF ks = {} THEN NoVal ELSE PickOf(Pg.vars, i, CHOOSE k \in ks : TRUE)]
PNone == [c \in DOMAIN x.c |-> NoVal]
NoU == [n \in DOMAIN x.s |-> NoVal]

\* once per program (i = 1): the specification's fold against the real one
FoldConforms ==
  LET A0 == Eval(x, Pg.ord, NoU, PNone)
      Tg == ToSet(Pg.targets)
  IN \A k \in 1..Len(Pg.pairs) :
       LET m == Fold(x, A0, Tg, Pg.pairs[k].orig, Fuel) IN
       m = Pg.pairs[k].min \/ PrintT(<<"R-fold", t, k, Pg.pairs[k].orig, m, Pg.pairs[k].min>>)

Check ==
  LET A == Eval(x, Pg.ord, U0, P0)
      A0 == Eval(x, Pg.ord, NoU, PNone)
      Tg == ToSet(Pg.targets) IN
  /\ \A k \in 1..Len(Pg.pairs) :
       /\ (EvalE(x, A, Pg.pairs[k].orig) = EvalE(x, A, Pg.pairs[k].min)
           \/ PrintT(<<"P-FoldSound", t, i, k, Pg.pairs[k].orig, Pg.pairs[k].min>>))
       /\ (EvalE(x, A, Pg.pairs[k].orig) = EvalE(x, A, Fold(x, A0, Tg, Pg.pairs[k].orig, Fuel))
           \/ PrintT(<<"D-FoldSound", t, i, k, Pg.pairs[k].orig, Fold(x, A0, Tg, Pg.pairs[k].orig, Fuel)>>))
  /\ \A k \in 1..Len(Pg.omitted) :
       A.core[Pg.omitted[k]].vis = 0 \/ PrintT(<<"P-OmitOnlyUnreachable", t, i, k, Pg.omitted[k], U0>>)
  /\ (i # 1 \/ FoldConforms)
  /\ (i # 1 \/ ToSet(Pg.refs) \subseteq ToSet(Pg.anchors) \/ PrintT(<<"P-RefsResolve", t, i, 0, ToSet(Pg.refs) \ ToSet(Pg.anchors), {}>>))

All == i = 0 \/ Check
=============================================================================

-------------------------------- MODULE KNav --------------------------------
(***************************************************************************)
(* The menuconfig navigation / editing model (C17): MenuConfigState as the *)
(* Textual front end drives it.                                            *)
(*                                                                         *)
(* Nodes: the menu tree as a sequence in tree-walk order; node 0 is the    *)
(* top node.  Per node (record, from the harness: structure of the real    *)
(* tree; conditions from the abstract program):                            *)
(*   kind "sym" | "choice" | "menu" | "comment", name, parent, kids (seq), *)
(*   mc (is_menuconfig), vis (<<>> or <<condition>>: the node's prompt     *)
(*   condition; for menus conjoined with `visible if`)                     *)
(* nav = [cur, shown (seq of node indices), sel (0-based), all (show-all), *)
(*        err ("" or the name of the failed step)]                         *)
(* Every action is total: where the code would raise, err is set.          *)
(***************************************************************************)
EXTENDS Naturals, Integers, Sequences, FiniteSets, SequencesExt, TLC

CONSTANTS Num10, Num16, NumC, DecStr, HexStr, StrRank, NumF, NormF, FCanon, HexPfx
INSTANCE KMenu

\* per-node visibility conditions of an abstract program, in tree-walk order (`if` blocks vanish)
RECURSIVE NodeConds(_, _, _)
NodeCondOne(e, dep, vis) ==
  CASE e.k = "config" ->
         LET d == And(e.dep, dep) IN
         <<[kind |-> "sym", name |-> e.name,
            vis |-> IF e.prompt = <<>> THEN <<>> ELSE <<And(e.prompt[1], And(vis, d))>>]>>
    [] e.k = "menu" ->
         LET d == And(e.dep, dep) IN
         <<[kind |-> "menu", name |-> "menu:" \o e.title, vis |-> <<And(d, e.visif)>>]>>
         \o NodeConds(e.children, d, And(e.visif, vis))
    [] e.k = "if" -> NodeConds(e.children, And(e.c, dep), vis)
    [] e.k = "choice" ->
         LET d == And(e.dep, dep) IN
         <<[kind |-> "choice", name |-> e.id,
            vis |-> IF e.prompt = <<>> THEN <<>> ELSE <<And(e.prompt[1], And(vis, d))>>]>>
         \o NodeConds(e.children, <<"ch", e.id>>, vis)
    [] OTHER -> <<[kind |-> "comment", name |-> "comment:" \o e.title, vis |-> <<And(e.dep, dep)>>]>>
NodeConds(es, dep, vis) ==
  IF es = <<>> THEN <<>> ELSE NodeCondOne(Head(es), dep, vis) \o NodeConds(Tail(es), dep, vis)

\* the menu tree: conditions from the program, structure (parent, kids, mc) from the harness
MkTree(prog, struct) ==
  LET cs == NodeConds(prog, YES, YES) IN
  [top |-> struct.top,
   nodes |-> [k \in 1..Len(cs) |-> [kind |-> cs[k].kind, name |-> cs[k].name, vis |-> cs[k].vis,
                                    parent |-> struct.nodes[k].parent, kids |-> struct.nodes[k].kids,
                                    mc |-> struct.nodes[k].mc]]]

Kids(N, i) == IF i = 0 THEN N.top ELSE N.nodes[i].kids
NodeVis(X, A, N, i) == LET n == N.nodes[i] IN n.vis # <<>> /\ EvalE(X, A, n.vis[1]) = 2

\* shown_nodes(menu)
RECURSIVE Rec(_, _, _, _, _)
Rec(X, A, N, all, list) ==
  IF list = <<>> THEN <<>>
  ELSE LET i == Head(list)
           n == N.nodes[i]
           rest == Rec(X, A, N, all, Tail(list))
       IN IF NodeVis(X, A, N, i) \/ all
            THEN <<i>> \o (IF n.kids # <<>> /\ ~n.mc THEN Rec(X, A, N, all, n.kids) ELSE <<>>) \o rest
          ELSE IF n.kids # <<>> /\ n.kind = "sym"
            THEN LET sub == Rec(X, A, N, all, n.kids)
                 IN IF sub # <<>> THEN <<i>> \o (IF ~n.mc THEN sub ELSE <<>>) \o rest ELSE rest
          ELSE rest

SymOf(N, i) == IF N.nodes[i].kind = "sym" THEN N.nodes[i].name ELSE ""
Shown(X, A, N, all, m) ==
  IF m # 0 /\ N.nodes[m].kind = "choice" THEN
    \* the rows of every definition of the choice, without repeating an option
    LET defs == SelectSeq([k \in 1..Len(N.nodes) |-> k], LAMBDA k : N.nodes[k].kind = "choice" /\ N.nodes[k].name = N.nodes[m].name)
        own == Rec(X, A, N, all, Kids(N, m))
        seen0 == {SymOf(N, own[k]) : k \in 1..Len(own)} \ {""}
        step(acc, d) ==
          LET rows == Rec(X, A, N, all, Kids(N, d))
              add(a2, r) == IF SymOf(N, r) \notin a2.seen \/ d = m
                              THEN [rows |-> Append(a2.rows, r), seen |-> a2.seen \cup ({SymOf(N, r)} \ {""})]
                              ELSE a2
          IN FoldLeft(add, acc, rows)
    IN FoldLeft(step, [rows |-> <<>>, seen |-> seen0], defs).rows
  ELSE Rec(X, A, N, all, Kids(N, m))

IndexIn(seq, v) == IF \E k \in 1..Len(seq) : seq[k] = v THEN (CHOOSE k \in 1..Len(seq) : seq[k] = v /\ \A j \in 1..Len(seq) : seq[j] = v => k <= j) - 1 ELSE 0 - 1

RECURSIVE ParentMenu(_, _)
ParentMenu(N, i) ==   \* _parent_menu: nearest is_menuconfig ancestor, else the top node
  LET p == N.nodes[i].parent IN
  IF p = 0 THEN 0 ELSE IF N.nodes[p].mc THEN p ELSE ParentMenu(N, p)

Ctx(X, ord, st) == EvalI(X, ord, st.U, st.P, st.I)

\* _update_menu: keep the highlighted node
UpdateMenu(X, ord, N, st, nav, tag) ==
  IF nav.err # "" THEN nav
  ELSE LET A == Ctx(X, ord, st)
           node == nav.shown[nav.sel + 1]
           sh == Shown(X, A, N, nav.all, nav.cur)
           k == IndexIn(sh, node)
       IN IF k < 0 THEN [nav EXCEPT !.err = tag] ELSE [nav EXCEPT !.shown = sh, !.sel = k]

SelectSelected(X, A, N, st, nav) ==   \* _select_selected_choice_sym
  IF nav.cur = 0 \/ N.nodes[nav.cur].kind # "choice" THEN nav
  ELSE LET c == N.nodes[nav.cur].name
           s == A.sel[c]
           hits == {k \in 1..Len(nav.shown) : SymOf(N, nav.shown[k]) = s}
       IN IF s = NoVal \/ hits = {} THEN nav
          ELSE LET nodesOfSel == SelectSeq([k \in 1..Len(N.nodes) |-> k], LAMBDA k : SymOf(N, k) = s)
                   firstShown == SelectSeq(nodesOfSel, LAMBDA k : IndexIn(nav.shown, k) >= 0)
               IN IF firstShown = <<>> THEN nav ELSE [nav EXCEPT !.sel = IndexIn(nav.shown, firstShown[1])]

EnterMenu(X, ord, N, st, nav, i) ==   \* <<entered?, nav'>>
  IF ~N.nodes[i].mc THEN <<FALSE, nav>>
  ELSE LET A == Ctx(X, ord, st)
           sub == Shown(X, A, N, nav.all, i)
       IN IF sub = <<>> THEN <<FALSE, nav>>
          ELSE <<TRUE, SelectSelected(X, A, N, st, [nav EXCEPT !.cur = i, !.shown = sub, !.sel = 0])>>

LeaveMenu(X, ord, N, st, nav) ==
  IF nav.cur = 0 THEN nav
  ELSE LET A == Ctx(X, ord, st)
           p == ParentMenu(N, nav.cur)
           sh1 == Shown(X, A, N, nav.all, p)
           \* a menu that is not displayed in its parent is left into show-all mode
           hidden == IndexIn(sh1, nav.cur) < 0
           sh == IF hidden THEN Shown(X, A, N, TRUE, p) ELSE sh1
           k == IndexIn(sh, nav.cur)
       IN IF k < 0 THEN [nav EXCEPT !.err = "leave_menu"]
          ELSE [nav EXCEPT !.cur = p, !.shown = sh, !.sel = k, !.all = nav.all \/ hidden]

ToggleShowAll(X, ord, N, st, nav) ==
  LET A == Ctx(X, ord, st)
      na == ~nav.all
      new == Shown(X, A, N, na, nav.cur)
      before == [k \in 1..(nav.sel + 1) |-> nav.shown[nav.sel + 2 - k]]        \* shown[sel::-1]
      after  == [k \in 1..(Len(nav.shown) - nav.sel - 1) |-> nav.shown[nav.sel + 1 + k]]
      cand == SelectSeq(before \o after, LAMBDA r : IndexIn(new, r) >= 0)
  IN IF nav.shown = <<>> \/ cand = <<>> THEN [nav EXCEPT !.all = TRUE]
     ELSE [nav EXCEPT !.all = na, !.shown = new, !.sel = IndexIn(new, cand[1])]

JumpTo(X, ord, N, st, nav, i) ==
  LET A == Ctx(X, ord, st)
      n == N.nodes[i]
      into == n.kind \in {"choice", "menu"} /\ n.kids # <<>>
      cur2 == IF into THEN i ELSE ParentMenu(N, i)
      target == IF into THEN n.kids[1] ELSE i
      sh1 == Shown(X, A, N, nav.all, cur2)
      needAll == IndexIn(sh1, target) < 0
      all2 == nav.all \/ needAll
      sh2 == IF needAll THEN Shown(X, A, N, TRUE, cur2) ELSE sh1
      k == IndexIn(sh2, target)
      nav2 == [nav EXCEPT !.cur = cur2, !.shown = sh2, !.all = all2, !.sel = k]
  IN IF k < 0 THEN [nav EXCEPT !.cur = cur2, !.shown = sh2, !.all = all2, !.err = "jump_to"]
     ELSE LET nav3 == IF into /\ ~nav.all /\ all2 THEN ToggleShowAll(X, ord, N, st, nav2) ELSE nav2
          IN IF into THEN SelectSelected(X, A, N, st, nav3) ELSE nav3

\* changeable(node)
Changeable(X, A, N, i) ==
  LET n == N.nodes[i] IN
  /\ n.kind \in {"sym", "choice"}
  /\ NodeVis(X, A, N, i)
  /\ IF n.kind = "choice" THEN FALSE     \* a choice has a single assignable value
     ELSE LET c == A.core[n.name]
              ty == X.s[n.name].type IN
          IF ty # "bool" THEN ~c.forced
          ELSE c.asg = "ny" \/ (X.s[n.name].ch # "" /\ c.vis = 2)

\* change_node -> <<result, st', nav'>>; result in "no", "toggled", "input", "left"
ChangeNode(X, ord, N, st, nav, i) ==
  LET A == Ctx(X, ord, st)
      n == N.nodes[i] IN
  IF ~Changeable(X, A, N, i) THEN <<"no", st, nav>>
  ELSE LET ty == X.s[n.name].type
           c == A.core[n.name] IN
       IF ty # "bool" THEN <<"input", st, nav>>
       ELSE LET v == IF c.asg = "ny" THEN (IF c.val = "n" THEN "y" ELSE "n") ELSE "y"
                st2 == SetVal(X, ord, st, n.name, v)
                nav2 == IF v # c.val THEN UpdateMenu(X, ord, N, st2, nav, "_update_menu") ELSE nav
            IN IF X.s[n.name].ch # "" /\ c.vis = 2 /\ n.kids = <<>>
                 THEN <<"left", st2, LeaveMenu(X, ord, N, st2, nav2)>>
                 ELSE <<"toggled", st2, nav2>>

\* the front end's events.  ev = [e, k | i | v | f]
Event(X, ord, N, R, Files, Menus, st, nav, ev) ==
  IF nav.err # "" THEN [st |-> st, nav |-> nav]
  ELSE
  CASE ev.e = "select" ->      \* Enter on row k
         IF ev.k >= Len(nav.shown) THEN [st |-> st, nav |-> nav]
         ELSE LET nv == [nav EXCEPT !.sel = ev.k]
                  i == nav.shown[ev.k + 1]
                  en == EnterMenu(X, ord, N, st, nv, i)
              IN IF en[1] THEN [st |-> st, nav |-> en[2]]
                 ELSE LET ch == ChangeNode(X, ord, N, st, nv, i) IN [st |-> ch[2], nav |-> ch[3]]
    [] ev.e = "toggle" ->      \* Space on row k
         IF ev.k >= Len(nav.shown) THEN [st |-> st, nav |-> nav]
         ELSE LET nv == [nav EXCEPT !.sel = ev.k]
                  i == nav.shown[ev.k + 1]
                  ch == ChangeNode(X, ord, N, st, nv, i)
              IN IF ch[1] = "no" THEN [st |-> st, nav |-> EnterMenu(X, ord, N, st, nv, i)[2]]
                 ELSE [st |-> ch[2], nav |-> ch[3]]
    [] ev.e = "input" ->       \* typed value for row k (after the dialog's validator)
         IF ev.k >= Len(nav.shown) THEN [st |-> st, nav |-> nav]
         ELSE LET nv == [nav EXCEPT !.sel = ev.k]
                  i == nav.shown[ev.k + 1]
                  A == Ctx(X, ord, st)
                  n == N.nodes[i]
              IN IF ~(n.kind = "sym" /\ X.s[n.name].type # "bool" /\ Changeable(X, A, N, i)) THEN [st |-> st, nav |-> nv]
                 ELSE LET st2 == UiSet(X, ord, st, n.name, ev.v)
                      IN [st |-> st2, nav |-> IF st2 # st THEN UpdateMenu(X, ord, N, st2, nv, "_update_menu") ELSE nv]
    [] ev.e = "setbool" ->     \* keys y / n on row k
         IF ev.k >= Len(nav.shown) THEN [st |-> st, nav |-> nav]
         ELSE LET nv == [nav EXCEPT !.sel = ev.k]
                  i == nav.shown[ev.k + 1]
                  A == Ctx(X, ord, st)
                  n == N.nodes[i]
                  ok == n.kind = "sym" /\ X.s[n.name].type = "bool"
                        /\ ((ev.v = "y" /\ A.core[n.name].asg \in {"y", "ny"}) \/ (ev.v = "n" /\ A.core[n.name].asg = "ny"))
              IN IF ~ok THEN [st |-> st, nav |-> nv]
                 ELSE LET st2 == SetVal(X, ord, st, n.name, ev.v)
                      IN [st |-> st2, nav |-> IF st2 # st THEN UpdateMenu(X, ord, N, st2, nv, "_update_menu") ELSE nv]
    [] ev.e = "leave" -> [st |-> st, nav |-> LeaveMenu(X, ord, N, st, nav)]
    [] ev.e = "reset" ->       \* restore default of row k (a menu: everything inside)
         IF ev.k >= Len(nav.shown) THEN [st |-> st, nav |-> nav]
         ELSE LET nv == [nav EXCEPT !.sel = ev.k]
                  i == nav.shown[ev.k + 1]
                  n == N.nodes[i]
                  st2 == IF n.kind = "menu" THEN ResetMany(X, st, Menus[n.name])
                         ELSE IF n.kind \in {"sym", "choice"} THEN ResetOne(X, st, n.name) ELSE st
              IN [st |-> st2, nav |-> UpdateMenu(X, ord, N, st2, nv, "_update_menu")]
    [] ev.e = "showall" -> [st |-> st, nav |-> ToggleShowAll(X, ord, N, st, nav)]
    [] ev.e = "jump" -> [st |-> st, nav |-> JumpTo(X, ord, N, st, nav, ev.i)]
    [] ev.e = "load" ->        \* _handle_load_result
         LET st2 == LoadAlt(X, R, st, Files[ev.f])
             A2 == Ctx(X, ord, st2)
             gone == nav.shown # <<>> /\ IndexIn(Shown(X, A2, N, nav.all, nav.cur), nav.shown[nav.sel + 1]) < 0
             nv == IF gone THEN [nav EXCEPT !.all = TRUE] ELSE nav
         IN [st |-> st2, nav |-> IF nav.shown = <<>> THEN [nv EXCEPT !.err = "load"] ELSE UpdateMenu(X, ord, N, st2, nv, "_update_menu")]
    [] OTHER -> [st |-> st, nav |-> nav]

StartNav(X, ord, N, st) ==
  LET A == Ctx(X, ord, st)
      sh == Shown(X, A, N, FALSE, 0)
  IN IF sh # <<>> THEN [cur |-> 0, shown |-> sh, sel |-> 0, all |-> FALSE, err |-> ""]
     ELSE [cur |-> 0, shown |-> Shown(X, A, N, TRUE, 0), sel |-> 0, all |-> TRUE, err |-> ""]

\* ---- the property
SelValid(nav) == nav.shown = <<>> \/ (0 <= nav.sel /\ nav.sel < Len(nav.shown))
NoRaise(nav) == nav.err = ""
=============================================================================

SPECIFICATION Spec
VIEW View
ACTION_CONSTRAINT Emit
INVARIANT ExactlyOne

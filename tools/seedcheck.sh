#!/bin/sh
# tools/seedcheck.sh <seed-dir-name> <Cxx> [<Cxx> ...]  [-- extra check args]
# Applies /verif/seeded/<name>/patch.diff to /repo, runs the named checks (quick tier), restores /repo.
# Never run while another job is using /repo.
N=$1; shift
P=/verif/seeded/$N/patch.diff
[ -f "$P" ] || { echo "no $P"; exit 2; }
git -C /repo diff --quiet || { echo "/repo is dirty"; exit 2; }
git -C /repo apply "$P" || exit 2
trap 'git -C /repo checkout -- . ; find /repo -name __pycache__ -type d -prune -exec rm -rf {} + 2>/dev/null' EXIT INT TERM
for c in "$@"; do
  T0=$(date +%s)
  OUT=$(cd /verif && ./check "$c" --tier "${TIER:-quick}" 2>&1); RC=$?
  echo "seed=$N check=$c rc=$RC secs=$(( $(date +%s) - T0 )) $(echo "$OUT" | grep -c '^VIOLATION') violations"
  echo "$OUT" | grep -E '^(VIOLATION|MACHINERY|KNOWN)' | head -5
done

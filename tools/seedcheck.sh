#!/bin/sh
# tools/seedcheck.sh <seed-dir-name> <Cxx> [<Cxx> ...]
# Runs the named checks against a scratch worktree of /repo's HEAD with /verif/seeded/<name>/patch.diff applied
# (VERIF_REPO points the harness at that tree; /repo itself is not touched). TIER=thorough, SEED=n optional.
N=$1; shift
P=/verif/seeded/$N/patch.diff
[ -f "$P" ] || { echo "no $P"; exit 2; }
W=$(mktemp -d /tmp/seedwt.XXXXXX)/$N
git -C /repo worktree add --detach -q "$W" HEAD || exit 2
trap 'git -C /repo worktree remove --force "$W" 2>/dev/null; rm -rf "$(dirname "$W")"' EXIT INT TERM
git -C "$W" apply "$P" || { echo "seed=$N patch does not apply to HEAD"; exit 2; }
for c in "$@"; do
  T0=$(date +%s)
  OUT=$(cd /verif && VERIF_REPO="$W" PYTHONPATH="$W" ./check "$c" --tier "${TIER:-quick}" --seed "${SEED:-0}" 2>&1); RC=$?
  echo "seed=$N check=$c rc=$RC secs=$(( $(date +%s) - T0 )) violations=$(echo "$OUT" | grep -c '^VIOLATION')"
  echo "$OUT" | grep -E '^(MACHINERY|KNOWN)' | head -3
  echo "$OUT" | grep -A1 '^VIOLATION' | grep -v '^VIOLATION\|^--' | cut -c1-220 | head -${SHOW:-2}
done

#!/usr/bin/env python3
"""Regenerates /verif/MANIFEST.json from the table below (kept here so that the
manifest stays valid and consistent while checks are added)."""
import json
import os

VERIF = os.path.dirname(os.path.dirname(os.path.abspath(__file__)))
ALL = ["C%02d" % i for i in range(1, 21)]

CLAIMED = {
    "C12": dict(
        technique="TLA+ model of sync_deps (spec/SyncDeps.tla) checked exhaustively by TLC with a crash at every file-system operation; TLC behaviours and a real-code crash sweep replayed with a file-system interposer; recorded operation traces validated by TLC (spec/Trace_Sync.tla)",
        text="Model checking: TLC explores all configuration/tree-version histories within the stated bounds with a crash in place of every file-system operation (torn lines included) and checks NoLostTrigger, NoSpurious, Idempotent on the model; every run-ending transition is replayed on the real sync_deps() under crash injection, and the recorded operations are validated against the specification with the same invariants evaluated on every observed state.",
        note="Crash = exception injected in place of a Python-level file operation (no fsync/rename-durability modelling); configurations: 3 tree versions x user assignments of 4 options + 2 aliases; histories <= 3 syncs/2 changes/2 crashes exhaustively, longer ones by seeded random walks.",
        design_ref="DESIGN.md section 3, C12",
    ),
    "C13": dict(
        technique="TLA+ model of the file writers (spec/SaveFile.tla: write_config with backup, _write_if_changed, kconfgen temp-file flow) checked exhaustively by TLC with a crash at every operation; the real writers run under a file-system interposer with the process killed at every operation; recorded traces validated by TLC (spec/Trace_Save.tla)",
        text="Model checking: TLC explores every initial condition (destination absent/regular/symlink, stale .old, changed/unchanged contents), every crash point and torn chunks of the three writer flows and checks NeverBothLost, UnchangedUntouched, Completed, BackupMade; the real write_config/write_autoconf/write_min_config and kconfgen main() for six formats are executed for the same conditions with a crash injected at every operation they perform, and TLC evaluates the same clauses after every recorded operation.",
        note="Crash = exception injected in place of a Python-level file operation, writes split per line with torn variants; durability (fsync, directory entries) not modelled; kconfgen docs/report formats not driven.",
        design_ref="DESIGN.md section 3, C13",
    ),
    "C01": dict(
        technique="TLA+ evaluator of the Kconfig language description (spec/KEval.tla: flattening of inherited dependencies + precedence rules); TLC enumerates every configuration of lattice and generated programs (spec/MC_Eval.tla), checks HiddenUserInert on the model and compares value / visibility / assignable / sdkconfig line of every option with the real implementation",
        text="Model checking: for each program TLC enumerates all assignments of candidate user values and choice picks, evaluates the documented precedence (set > user value if visible and in range > set default > first default; select/imply for bools; inherited depends on / if / menu / visible if) and the inertness of hidden user values, and compares every option's value, visibility, assignable set and written line with what the real Kconfig object reports for the same assignment.",
        note="Programs <= 8 options from the F-prec/F-nest/F-choice lattices plus seeded generated programs; literals from a fixed universe with numeric tables built by Python's int(); float type and option env not covered.",
        design_ref="DESIGN.md section 3, C01",
    ),
    "C02": dict(
        technique="TLA+ model of sdkconfig writing and loading (spec/KStore.tla: Render with default markers, Load with deferred choice members and replace semantics); TLC checks the round trip on the model for every configuration (spec/MC_Store.tla) and compares with the real write_config / load_config into a fresh instance / write_config",
        text="Model checking: for every configuration of every program TLC evaluates Render, Load(Render) and Render again on the specification and compares them with the lines the real implementation wrote, the values after reloading into a fresh instance and the second write; the property clauses (values equal, assignments equal, bytes equal, no diagnostics) are evaluated by TLC on the observations.",
        note="Configurations are (user values, picks) states of <= 8-option programs; histories through merges of hand-written files and the deprecated block are covered by C11/C08 once built; byte identity is compared on the real files.",
        design_ref="DESIGN.md section 3, C02",
    ),
    "C10": dict(
        technique="TLA+ model of the minimal-config writer (spec/KStore.tla: MinLines, StrDefault, SelFromDefaults) and Load; TLC checks MinReconstructs on the model for every configuration (spec/MC_Store.tla) and compares with the real write_min_config (4 variants) reloaded into fresh instances",
        text="Model checking: for every configuration TLC computes the minimal lines and the values after loading them on the specification, compares both with the real write_min_config output and the values of a fresh instance that loaded it, and evaluates MinReconstructs and the labels/normalise variant equality on the observations.",
        note="Same program families and bounds as C02; kconfgen's wrapper (header, ESP_IDF_KCONFIG_MIN_LABELS) is exercised by C13's savedefconfig flow only for rewriting, not for reconstruction.",
        design_ref="DESIGN.md section 3, C10",
    ),
    "C05": dict(
        technique="TLA+ choice rule in spec/KEval.tla (mode, user pick if visible, first visible default, first visible member) with ExactlyOne checked by TLC on every configuration (MC_Eval) and on every state of the session model (MC_Hist: set member y/n, gates, unset, reset, replace/merge loads of files assigning several members); every TLC transition replayed on the real code and validated by TLC (MC_HistCheck) including header/CMake/JSON agreement",
        text="Model checking: ExactlyOne is an invariant of the KStore session model over all action sequences up to the bound and of every enumerated configuration of the F-choice lattice; each transition TLC explores is replayed on a real instance and the observed member values, Choice.selection and the members defined in header, CMake and JSON are compared with the specification.",
        note="Sessions bounded at 3 actions over ~26-letter alphabets (quick: stride-sampled 500 transitions per program); members are bools with prompts; m-mode / optional choices do not exist in this fork.",
        design_ref="DESIGN.md section 3, C05",
    ),
    "C06": dict(
        technique="TLA+ numeric evaluation (spec/KEval.tla: range lookup, validity by literal tables, clamp; spec/KStore.tla ValidFor) with WellTyped/InRange invariants checked by TLC over the numeric lattice with user values from the whole literal universe, through set_value and through sdkconfig files; header/CMake/JSON numbers read back and compared by TLC (MC_Eval OutsP)",
        text="Model checking: TLC enumerates every configuration of the int/hex/float lattice (prompt x set x set default x defaults x literal/conditional/option-valued range) with malformed, negative, huge, out-of-range and differently formatted user values, checks well-typedness and range containment on the model, compares every value with the implementation and checks that the three generators carry the same number (hex with 0x).",
        note="The property's lexical classes are fixed in tables (int: optional sign + digits; hex: optional 0x + hex digits; float: decimal/exponent, finite); numbers below 2^31; the config-server arrival path is covered by C14/C15.",
        design_ref="DESIGN.md section 3, C06",
    ),
    "C03": dict(
        technique="TLC exploration of sessions of the KStore model (spec/MC_Hist.tla) in which reads that fill caches are interleaved with set/unset/reset/load; every explored transition replayed on a fresh real instance without cache flushes; observations validated by TLC (spec/MC_HistCheck.tla) against the from-scratch evaluation of spec/KEval.tla, plus the equalities recompute / fresh-instance / re-read evaluated on the observations",
        text="Model checking: TLC enumerates all action sequences up to the bound over (user values, picks, abstract cache-validity); each transition is executed on the implementation, values are read in a seeded order and compared by TLC with the specification's from-scratch values, with the values after _invalidate_all(), with a fresh instance that received the same user state in another order, and with a second read in another order.",
        note="Sessions of <= 3 actions; quick keeps every history of the form read..change and stride-samples the rest (140 per program); the invalidation graph itself (_dependents) is not compared structurally, only through behaviour; one program per dependency-edge kind (F-edge) is always included.",
        design_ref="DESIGN.md section 3, C03",
    ),
    "C09": dict(
        technique="TLA+ dependency graph of a program (spec/KDeps.tla: edges for every way an option reads another, choice membership through visibility -> selection -> member values) with cycle detection evaluated by TLC for every base program and every single-added-edge variant (spec/MC_Deps.tla); verdict compared with the real loader over several constructions of the same text; accepted variants evaluated in many configurations",
        text="Model checking: TLC computes HasLoop for each program obtained from acyclic bases by adding one edge of each kind between ordered pairs of options and compares it with what Kconfig() does (rejected with a dependency-loop message naming an option on the cycle, or accepted) in four constructions with perturbed allocation; every accepted tree then has all values, visibilities and outputs computed in up to 24 configurations with any exception counted as a violation.",
        note="Edges between two members of the same choice are excluded (implicit sub-menu rule is outside the modelled language); bases have <= 8 options; the error text is only required to mention an option on a cycle.",
        design_ref="DESIGN.md section 3, C09",
    ),
    "C07": dict(
        technique="TLA+ description of what each output format says about a configuration and about every deprecated alias (spec/KOutputs.tla on top of KEval); TLC enumerates every configuration of every (program, rename table) pair (spec/MC_Outputs.tla), compares with what format readers find in the real sdkconfig / header / CMake / JSON / auto.conf and evaluates cross-format agreement on the observations",
        text="Model checking: for each (program, rename table) TLC enumerates all assignments, computes per format the abstract map name -> absent/value with the format's encoding of n and the alias rule (replacement's value, inverted iff the alias's own line is marked and the option is bool, last mapping wins), and compares with the files written by the real generators; SameValue and AliasAgree are also evaluated directly on the observed maps.",
        note="Generators called in-process; header aliases are evaluated with C preprocessor semantics by the harness reader; ordering inside files is left open; rename tables of <= 4 lines over <= 2 options.",
        design_ref="DESIGN.md section 3, C07",
    ),
    "C11": dict(
        technique="TLA+ Load with a rename table and Rewrite (spec/KStore.tla); TLC checks AliasEquiv and NoUnknownAlias on the model for every (rename table, file) case (spec/MC_Rename.tla), compares the specification's result with the real loader on the file and on its rewriting, and evaluates AliasEquiv / NoUnknownAlias / BlockIgnored / BlockEval on the observations",
        text="Model checking: for every ordered selection of <= 3 lines mixing deprecated and new names (valid, invalid, default-marked, unknown) under four rename tables, TLC evaluates Load(F) and Load(Rewrite(F)) on the specification, checks they coincide, and compares both with two real loads into fresh instances; files with a contradicting deprecated block are additionally loaded without the block and with load_deprecated=True (eval_string on the old names).",
        note="One fixed 9-option program; rename tables: multiple files, duplicates (both inversion orders), inversion on a non-bool, lower-case old name, alias of a choice member, alias of an undefined option (only 'nothing raises / no defined option changes' required there).",
        design_ref="DESIGN.md section 3, C11",
    ),
    "C08": dict(
        technique="TLA+ model of loading under a defaults policy (spec/KStore.tla LoadP: default-marked entries never become user values, mismatch detection in dependency order, injection of the stored value as sole default under policy sdkconfig, promptless entries ignored, choice handling) with injected defaults in the evaluator (KEval EvalI); TLC (spec/MC_Policy.tla) compares every case with the real instance after the load and after each edit and evaluates both clauses on model and observations",
        text="Model checking: each case is a file written by the real tool under an old program and loaded under the same or a singly mutated program with policy sdkconfig or kconfig, followed by edits; TLC evaluates LoadP and the edits on the specification, compares values, default markers and the reported mismatch for the mutated option with the real instance, checks NoPin on the model, and evaluates NoPin, PolicyKconfig, PolicySdkconfig and PromptlessIgnored on the observations (including real loads of the stripped file).",
        note="Single-mutation tree pairs (default literal/condition, range, prompt removed, option added/removed, choice default); <= 2 edits per case; interactive policy excluded; stored defaults outside the new active range and the reporting of mismatches of options other than the mutated one are left open.",
        design_ref="DESIGN.md section 3, C08",
    ),
    "C14": dict(
        technique="TLA+ model of the config server (spec/KServer.tla: the four reply channels of a configuration, Diff / Merge, request handling with multi-pass set, reset of options / menus / all, load / save with path tracking) on top of KStore; request sequences run against the real run_server() in-process; TLC (spec/MC_Server.tla) computes the specification's reply for every request, evaluates InSync on the model after every request, merges the observed replies into a client and compares it with a fresh server started on the saved file",
        text="Model checking: for every session TLC folds the specification's request handler over the request sequence, compares each reply channel by channel with the observed reply, checks the model client against the full state after every request, and checks the client built from the observed replies against the initial message of a fresh real server on the file written by the final save (InSync on observations and SaveFaithful); protocol versions 2 and 3 in TLC, version 1 on visible options by the harness.",
        note="Sessions of <= 3 requests + final save over per-program alphabets; in-process server (stdin/stdout substituted); menu/comment ids opaque (compared between observed client and fresh server only); error entries compared as present/absent. Open finding: a vanished range of a still visible option is never withdrawn.",
        design_ref="DESIGN.md section 3, C14",
    ),
    "C15": dict(
        technique="TLA+ normative model of request sanitising (spec/KServer.tla Sanitize / MustReport over abstract JSON kinds) on top of the server model; a decision table of every protocol key x JSON kind (plus value kinds x option types, reset element kinds, file errors, malformed / non-object lines) embedded in sessions run against the real run_server(); TLC (spec/MC_Server15.tla) compares the configuration saved at the end with the fold of the sanitised requests and evaluates OneReply, StdoutPure, Alive, ErrorsListed on the observations",
        text="Model checking of a decision table: each row is a session [valid request, row, valid request, save]; TLC folds the specification's handler over the sanitised lines and requires the saved configuration to equal the specification's (the bad part is as if not sent), exactly one JSON object line per input line, no exception escaping the server, and an error entry where the specification requires one.",
        note="In-process server; 150+ rows, some doubled / combined pairwise in the thorough tier; numbers sent to string options and error wording are left open; stdout purity is judged on the substituted stdout stream.",
        design_ref="DESIGN.md section 3, C15",
    ),
    "C16": dict(
        technique="TLA+ model of the menuconfig session as far as saving is concerned (spec/KMenu.tla: user values, picks, the per-option record of the main sdkconfig, unknown names, the file on disk; front-end guarded edits, resets, try_load, save + reload; NeedsSave transcribed from needs_save()); TLC explores all action sequences from five initial files with CleanMeansSaved / SavedMeansClean as invariants (spec/MC_Menu16.tla) and emits them; each is replayed on the real MenuConfigState through the application's own handlers and validated by TLC (spec/MC_Menu16Check.tla)",
        text="Model checking: CleanMeansSaved and SavedMeansClean are invariants of the explored session model; every explored transition is executed on a real headless session (MenuConfigState + the app's action_save/_do_save/_handle_load_result/_apply_input on a stand-in), and TLC compares needs_save() and all values at every step and evaluates both clauses on the observations, the file being compared byte for byte with what write_config would write.",
        note="Sessions <= 3 actions (those containing save/load kept first when capped); Textual UI not started; hand-edited initial files that were never saved are compared by effective entries instead of bytes.",
        design_ref="DESIGN.md section 3, C16",
    ),
    "C17": dict(
        technique="TLA+ model of MenuConfigState navigation and editing (spec/KNav.tla: shown_nodes incl. choices defined in several places and implicit sub-menus, enter / leave / jump_to / toggle_show_all / change_node / typed input / reset / load, total actions with an explicit error state); TLC explores all event sequences (spec/MC_Nav.tla) with SelValid as invariant and records every sequence ending in the error state; every transition is replayed on the real MenuConfigState through the front end's handlers and validated by TLC (spec/MC_NavCheck.tla)",
        text="Model checking: all event sequences up to the bound are explored on the specification; each is executed on a real headless session and TLC compares current menu, displayed rows, highlighted row, show-all flag and every value after every event; any exception (NoRaise), a highlighted row outside the list, a changed locked option, a non-assignable value applied, or an accepted input that is not the option's value afterwards is a violation.",
        note="Events on rows 0-4, 7 typed literals, jump to every node, loads that hide options; sequences <= 3; Textual widgets not started (their handlers' calls into the model are reproduced); tree structure read from the real object, visibility conditions from the abstract program.",
        design_ref="DESIGN.md section 3, C17",
    ),
    "C19": dict(
        technique="TLA+ model of the deprecated-options scope (spec/DeprScope.tla: nearest project root, global and local rename sets as the property defines them, and the implementation's memoised root search with back-fill and lazily built per-project sets); TLC explores every order of checking every subset of files of each directory universe (spec/MC_Depr.tla) with ScopeExact / MemoSound / LocalSound as invariants and compares verdicts and memo contents with the real functions run on a materialised tree",
        text="Model checking: for each directory universe all check orders are explored; after every step the verdicts must equal the memo-free definition (exact scope), the memo and the lazily built sets must be sound, and the verdicts and project-root cache observed on _prepare_deprecated_options / check_deprecated_options for the same order in a real directory tree must equal the model's.",
        note="9-directory skeleton, <= 3 rename files and <= 3 defaults files per universe, all orders of all subsets; the command line is run once for a sample of universes (exit status); IDF root is not a project root.",
        design_ref="DESIGN.md section 3, C19",
    ),
    "C20": dict(
        technique="TLA+ transcription of the target-constant classification and condition folding (spec/DocFold.tla) over the evaluator of spec/KEval.tla; for each program and docs target the real ConfigTargetVisibility / _minimize_expr / write_docs are run; TLC (spec/MC_Docs.tla) enumerates every assignment of the user-settable options and checks FoldSound on the real folded conditions and on the specification's fold, equality of the two folds, OmitOnlyUnreachable and RefsResolve",
        text="Model checking: every (original, folded) condition pair taken from the real generator is evaluated by TLC under all assignments of the user options and must have the same truth value; the specification's own fold must coincide with the real one and be sound; every prompted option without an anchor in the generated text must be invisible in all those configurations; every :ref: target must be an anchor of the same text.",
        note="Conditions over 16 atoms (target symbols, promptless target-derived options, target-gated prompt, force-selected option, user options, undefined name; all six relations incl. between two free options) combined with ! && ||; two targets; 288 assignments per program; env-variable expansion and deprecated-options appendix not exercised.",
        design_ref="DESIGN.md section 3, C20",
    ),
    "C04": dict(
        technique="Programs of the documented grammar rendered in lexical variants and parsed by both parsers; the finalised trees, abstracted into the definition records of spec/KEval.tla, are interpreted by TLC (spec/MC_Parse.tla) under every assignment against the specification's Flatten of the abstract program; trees, conditions and outputs are also compared structurally across parsers and variants, and for the shipped fixtures",
        text="Model checking + translation comparison: for each program TLC evaluates, under all assignments of candidate user values, the configuration given by the tree of parser 1, the tree of parser 2 and the specification's flattening of the abstract program, and requires the three to coincide; the harness additionally requires both parsers to accept every variant, and entries / order / nesting / types / prompts / help / every condition / sdkconfig, header and JSON outputs to coincide across parsers and lexical variants.",
        note="Lexical variants: property order, separate prompt, comments / blank lines, line continuation, help blocks, tabs, rsource; macros, option env, $(shell), exotic quoting are outside the generated family; order of Kconfig.choices/menus/comments left open; fixtures parsed with IDF_TARGET etc. set.",
        design_ref="DESIGN.md section 3, C04",
    ),
    "C18": dict(
        technique="TLA+ transducer of the kconfcheck per-line checker chain (spec/CheckIndent.tla: level stack, forced indent after a continuation, help-text recognition, tab / trailing white-space rule, what one --replace pass writes); canonical and mangled files are run through the real validate_file(replace=True) until OK; TLC (spec/MC_Indent.tla) computes the specification's passes, compares verdict and per-line (indent, tabs, trailing) after every pass, and evaluates CanonicalOK / Converges / Idempotent / SameProgram on model and observations",
        text="Model checking of a transducer + replay: for every canonical file and every mangling of 1-3 lines TLC folds the specification's Pass until it reports OK and compares each pass with the real tool's result on the same file; convergence within 6 passes, idempotence of a further pass, no suggestion file left, byte identity for compliant files, and both parsers reading the accepted file like the original are evaluated on the observations.",
        note="Component-style files (no mainmenu) from generated programs with names satisfying the naming rules; name rules, the 120-character rule and SourceChecker are not exercised; sdkconfig.rename files are handled by the harness only (three cases). Open findings: under-indented help text starting with a keyword; tab-indented entry line after a help block.",
        design_ref="DESIGN.md section 3, C18",
    ),
}

# additions made after the first build (kept apart so that the long entries above stay untouched)
EXTRA_NOTES = {
    "C16": " Round 4: sessions containing a save are replayed once more with nothing read between the actions (TLC judges the final observation by the same clauses).",
    "C06": " Round 4: the numeric F-nest programs (incl. a default outside the range) under menus / ifs that are off.",
    "C02": " Every configuration is entered from another, fully evaluated configuration of the same instance and the writers run before any read in 2 of 3 cases (stale internal flags); the same fixpoint is checked through kconfgen's command line (spec/KStore.tla GenRun, spec/MC_Gen.tla: --defaults files merged in order, sdkconfig merged on top, both policies, second run rewrites nothing). Round 4: two choices with a forward dependency, member-less additional definitions, a user value n on a member itself (Marked follows the choice's pick only).",
    "C01": " Families since added: F-multidef, F-forward (entries reversed: use before definition), F-regress, strings that read n / y. Round 4: implicit-submenu programs (an option directly followed by an if / menu / option depending on it, under `visible if` and dependent menus).",
    "C05": " Named choice defined in two places since added. Round 4: member-less second definition carrying a default; two choices; a default naming an option outside the choice (selects nothing).",
    "C07": " Each configuration is entered from another evaluated one; the generator that runs first rotates. Round 4: every other configuration syncs into the dependency directory left by the previous build of a larger tree and no output may name an undefined option (P-SamePresence); options without any value, with aliases.",
    "C08": " Old programs whose stored default looks like an option name / a bool since added; open finding C08-resolution-order (matcher: resolution-order-reverse-property) with an F-regress program. Round 4: two defaults changed at once (the deciding option / choice defined after the dependant), an option defined in two places under different dependencies (kept default holds under any definition's dependencies), F-multidef bases.",
    "C09": " Literals that are no numbers of the target's type, long acyclic chains (open finding C09-deep-chain-recursion) since added; KDeps corrected for choice definitions without prompt. Round 4: two of the four constructions of every text run under the loader's optional checks (KCONFIG_WARN_UNDEF / KCONFIG_STRICT) with an undefined reference; relations between very large ints / hex numbers and floats.",
    "C12": " Long-lived Kconfig object in every second history; hex option spelled with / without 0x (SyncDeps compares hex as the header spells it). Round 4: aliases of an option that stops being written; an int spelled with / without leading zeros (SyncDeps compares ints as the header spells them).",
    "C14": " Requests with load and save together; every session file compared with the specification's (R-SavedWhere). Round 4: the quick tier runs every F-edge program with every pair of requests.",
    "C17": " Options with a warning, confirmed through force_change_node, since added. Round 4: rows that are no options (comment, menu holding only a comment, empty menu) conditioned on an option nothing depends on.",
    "C10": " Every configuration is entered from another, fully evaluated one; write_min_config runs before any read in 1 of 3 cases. Round 4: string values spelling the unset marker / holding a form feed.",
    "C03": " Plus seeded walks of 4-8 actions, replacing loads of files the tool itself wrote (default-marked entries) and the observation that no such history rewrites an option's defaults (R-NoInjection). Round 4: the quick tier keeps every twice-defined option whose prompt is on the first definition only.",
    "C04": " Macro variants since added: NAME = / := literal in front of entries (redefined later), used bare, quoted, embedded and doubled in default values and range bounds; also split-and, min-parens, two-prompts, odd-text variants, F-lex programs and hand-written fixtures; five open parser-2 findings (white-space splitting of option lines). Round 4: inline-comments style; literals with an escaped quote before '#', ending in an escaped backslash, a float with decimals and exponent, an option name starting with a digit.",
    "C11": " The program also comes in a variant whose conditions still mention the deprecated names without defining them; block entries with quotes / backslashes / empty right-hand side; invalid bool text through aliases.",
    "C13": " copyfile(follow_symlinks=False) is honoured by the interposer and modelled in Trace_Save as a second name of the destination file; docs and report formats; regeneration by sub-processes with other hash seeds. Round 4: previous contents without a final newline (hand-edited destination).",
    "C15": " Rows since added: file names the OS refuses (NUL, lone surrogate, empty), set / reset of a name that is only mentioned in expressions, lines the decoder refuses (huge integer, deep nesting), markup text into numeric options; a subset also through the real process with default verbosity. Round 4: every row also against a server started with --version 1 / 2; a hex value of 4000 digits; reset all; the same sessions on a tree with 1200 more options; where `save: null` goes after a refused request / failed load / failed save (R-SavedWhere on the session's first file).",
    "C18": " Include lines (source / rsource / osource / orsource) after entries are now part of the generated files; the included file defines an option. Round 4: names of 43 / 44 / 49 / 50 / 51 characters in rename files and Kconfig files.",
    "C19": " Skeleton since extended to 11 directories (a second directory inside the nested project, a directory named like a rename file); rename files named on the command line / below --includes (DeprScope Explicit / Includes). Round 4: two rename files named in one invocation, standing after / before / between the files to check.",
    "C20": " Programs now contain options defined twice, choices (named, unnamed, gated), nested menus emptied by the target, promptless options reached through imply / set / set default, a float option and literal. Round 4: a choice member that `depends on` another target; documented options whose default value is a choice member.",
}

REASON_PENDING = "check not built yet in this session (planned in DESIGN.md section 3); not claimed until its TLA+ model and conformance harness exist"


def main():
    checks = []
    for pid in ALL:
        if pid not in CLAIMED:
            continue
        c = CLAIMED[pid]
        checks.append(
            {
                "property_id": pid,
                "quick_cmd": "./check %s --tier quick" % pid,
                "thorough_cmd": "./check %s --tier thorough" % pid,
                "evidence_file": "evidence/%s.json" % pid,
                "replay_cmd_template": "./check %s --replay {path}" % pid,
                "engine": "tlc+replay",
                "level_claimed": {"category": "model_checking", "text": c["text"], "design_ref": c["design_ref"]},
                "level_note": c["note"] + EXTRA_NOTES.get(pid, ""),
                "technique": c["technique"],
            }
        )
    man = {
        "version": 1,
        "setup_cmd": "./setup.sh",
        "hooks": {
            "guard": "ESP_IDF_KCONFIG_VERIF",
            "enable": "no in-repo hooks: the checks import /repo directly and observe it from outside (file-system interposer, in-process server, headless menuconfig model); ./check exports ESP_IDF_KCONFIG_VERIF=1 for the harness-side taps only",
            "baseline_off_cmd": "./tools_baseline.sh",
            "source_commits": [],
            "add_only": True,
        },
        "engines": [
            {
                "name": "tlc+replay",
                "path": "check",
                "serves_properties": sorted(CLAIMED),
                "kind_free_text": "TLA+ specifications in spec/ checked by TLC; behaviours replayed into the real code and recorded traces validated by TLC (harness/)",
            }
        ],
        "checks": checks,
        "not_applicable": [{"property_id": p, "reason": REASON_PENDING} for p in ALL if p not in CLAIMED],
        "notes": "Genuine defects found are repaired in /repo by 'fix:' commits and listed in known_findings.json (fixed: entries) or recorded there as open findings with specific matchers.",
    }
    with open(os.path.join(VERIF, "MANIFEST.json"), "w") as f:
        json.dump(man, f, indent=1)
        f.write("\n")


if __name__ == "__main__":
    main()

#!/bin/sh
# tools/seedmatrix.sh [parallel]: every seeded change against the quick tier of its property's check (scratch worktrees);
# writes /verif/seeded/<id>/meta.json "detected_by" and prints one line per change. Takes about an hour on 16 cores.
P=${1:-3}
OUT=$(mktemp -d /tmp/seedmatrix.XXXXXX)
cd /verif || exit 2
ls seeded | xargs -P "$P" -I{} sh -c 'c=$(echo {} | cut -c1-3); tools/seedcheck.sh {} $c > '"$OUT"'/{}.log 2>&1'
/venv/bin/python - "$OUT" <<'PY'
import json, re, glob, os, sys
out = sys.argv[1]
head = os.popen('git -C /repo rev-parse --short HEAD').read().strip()
bad = 0
for f in sorted(glob.glob(out + '/*.log')):
    sid = os.path.basename(f)[:-4]
    txt = open(f).read()
    m = re.search(r'seed=(\S+) check=(\S+) rc=(\d+) secs=(\d+) violations=(\d+)', txt)
    mp = '/verif/seeded/%s/meta.json' % sid
    meta = json.load(open(mp))
    if not m:
        print(sid, 'NO RESULT:', txt.strip().splitlines()[-1][:120] if txt.strip() else '')
        bad += 1
        continue
    first = [l.strip() for l in txt.splitlines() if l.startswith('  ')][:1]
    meta['detected_by'] = {'check': m.group(2), 'tier': 'quick', 'seed': 0, 'exit': int(m.group(3)), 'violations_reported': int(m.group(5)),
                           'first_report': first[0][:300] if first else '', 'how': 'tools/seedcheck.sh %s %s (scratch worktree of /repo HEAD + patch.diff)' % (sid, m.group(2)), 'at_repo_commit': head}
    json.dump(meta, open(mp, 'w'), indent=1)
    open(mp, 'a').write('\n')
    print(sid, 'exit', m.group(3), 'violations', m.group(5))
    if m.group(3) != '1':
        bad += 1
print('not reported:', bad)
PY
rm -rf "$OUT"

#!/bin/sh
# tools/sweep.sh <tier> <seed>...: run every check for each seed, print one line per run
TIER=$1; shift
cd "$(dirname "$0")/.." || exit 2
for S in "$@"; do
  for C in C01 C02 C03 C04 C05 C06 C07 C08 C09 C10 C11 C12 C13 C14 C15 C16 C17 C18 C19 C20; do
    START=$(date +%s)
    ./check $C --tier $TIER --seed $S > /tmp/sweep_$C_$S.out 2>&1
    RC=$?
    END=$(date +%s)
    echo "seed=$S $C rc=$RC $((END-START))s $(grep -c '^VIOLATION' /tmp/sweep_$C_$S.out) $(grep -v KNOWN /tmp/sweep_$C_$S.out | tail -1 | cut -c1-150)"
    if [ $RC -ne 0 ]; then grep -A3 "^VIOLATION\|MACHINERY" /tmp/sweep_$C_$S.out | head -12; fi
    rm -f /tmp/sweep_$C_$S.out
  done
done

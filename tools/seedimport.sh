#!/bin/sh
# tools/seedimport.sh <Cxx> <src-dir> <new-seed-name>
# Takes patch.diff / demo.py / notes.md produced by a sub-agent in <src-dir>, confirms them in a fresh scratch worktree of
# /repo HEAD (demo exits 0 without the patch, 1 with it; baseline stable_pass still passes with it) and stores them as
# /verif/seeded/<new-seed-name>/ with a meta.json skeleton (change / needs are filled in by hand).
P=$1; SRC=$2; N=$3
[ -f "$SRC/patch.diff" ] && [ -f "$SRC/demo.py" ] || { echo "missing patch.diff/demo.py in $SRC"; exit 2; }
W=$(mktemp -d /tmp/seedimp.XXXXXX)/$N
git -C /repo worktree add --detach -q "$W" HEAD || exit 2
trap 'git -C /repo worktree remove --force "$W" 2>/dev/null; rm -rf "$(dirname "$W")"' EXIT INT TERM
cp "$SRC/demo.py" "$W/demo.py"
run_demo() { (cd "$W" && PYTHONDONTWRITEBYTECODE=1 KCONFIG_REPORT_VERBOSITY=quiet PYTHONPATH="$W" timeout 300 /venv/bin/python demo.py > "$1" 2>&1; echo $?); }
R0=$(run_demo /tmp/seedimp_without.$$)
git -C "$W" apply "$SRC/patch.diff" || { echo "patch does not apply to HEAD"; exit 2; }
R1=$(run_demo /tmp/seedimp_with.$$)
BL=$(/tmp/agent_tools/baseline.sh "$W" 2>&1 | head -1)
echo "seed=$N demo_without=$R0 demo_with=$R1 baseline: $BL"
case "$BL" in *"missing=0"*) OK=1;; *) OK=0;; esac
if [ "$R0" = 0 ] && [ "$R1" = 1 ] && [ $OK = 1 ]; then
  D=/verif/seeded/$N; mkdir -p "$D"
  cp "$SRC/patch.diff" "$SRC/demo.py" "$D/"; [ -f "$SRC/notes.md" ] && cp "$SRC/notes.md" "$D/"
  mv /tmp/seedimp_without.$$ "$D/demo_without.out"; mv /tmp/seedimp_with.$$ "$D/demo_with.out"
  FILES=$(grep '^+++ b/' "$SRC/patch.diff" | sed 's|^+++ b/||' | tr '\n' ' ')
  HEAD=$(git -C /repo rev-parse --short HEAD)
  /venv/bin/python - "$D/meta.json" "$N" "$P" "$HEAD" "$FILES" <<'PY'
import json,sys
p,n,pid,head,files=sys.argv[1:6]
json.dump({"id":n,"property":pid,"origin":"fresh sub-agent given only the property record and a scratch worktree (later rounds: told which mechanisms earlier rounds had used)",
 "base_commit":head,"files":files.split(),"change":"","needs":"",
 "confirmed":{"demo_exit_with_patch":1,"demo_exit_without_patch":0,"baseline_stable_pass_missing":0},
 "demonstration":"demo.py (run with PYTHONPATH=<tree>): exit 1 = property violated","detected_by":None},open(p,"w"),indent=1)
PY
  echo "stored $D"
else
  echo "NOT CONFIRMED"; tail -5 /tmp/seedimp_without.$$ /tmp/seedimp_with.$$; rm -f /tmp/seedimp_without.$$ /tmp/seedimp_with.$$; exit 1
fi

#!/bin/sh
# validate MANIFEST.json and every evidence file against the schemas
python3-vt - <<'PY'
import json, jsonschema, glob
jsonschema.validate(json.load(open('/verif/MANIFEST.json')), json.load(open('/root/.vp/MANIFEST.schema.json')))
for p in sorted(glob.glob('/verif/evidence/*.json')):
    jsonschema.validate(json.load(open(p)), json.load(open('/root/.vp/EVIDENCE.schema.json')))
    print("ok", p)
print("manifest ok")
PY

#!/usr/bin/env python3
"""Rewrites the table of DESIGN.md section 4.1 (between the SEEDTABLE markers) from /verif/seeded/*/meta.json."""
import glob
import json
import os

VERIF = os.path.dirname(os.path.dirname(os.path.abspath(__file__)))
rows = ["| id | change | needs | reported by (quick tier) | at first? |", "|---|---|---|---|---|"]
first = missed = 0
for d in sorted(glob.glob(os.path.join(VERIF, "seeded", "*", "meta.json")), key=lambda p: (os.path.basename(os.path.dirname(p))[:3], os.path.basename(os.path.dirname(p)))):
    m = json.load(open(d))
    det = m.get("detected_by") or {}
    if m.get("missed_at_first"):
        missed += 1
        at = "no — " + m.get("strengthening", "")
    else:
        first += 1
        at = "yes"
    rows.append("| %s | %s | %s | %s: exit %s, %s reported | %s |" % (m["id"], m["change"].replace("|", "/")[:170], m["needs"].replace("|", "/")[:150], det.get("check"), det.get("exit"), det.get("violations_reported"), at))
p = os.path.join(VERIF, "DESIGN.md")
s = open(p).read()
a, b = "<!-- SEEDTABLE-BEGIN -->", "<!-- SEEDTABLE-END -->"
i, j = s.index(a), s.index(b)
s = s[: i + len(a)] + "\n" + "\n".join(rows) + "\n" + s[j:]
open(p, "w").write(s)
print("rows", len(rows) - 2, "reported at first", first, "after strengthening", missed)

#!/bin/sh
# tools/mut.sh <check id> <python-snippet-file>: apply a mutation script to /repo, run the check, restore.
ID=$1; SCRIPT=$2
cd /repo && python3 "$SCRIPT" || { echo "mutation failed to apply"; git -C /repo checkout -- .; exit 3; }
cd /verif && ./check $ID 2>&1 | grep -v "^  \|^<\|^ " | cut -c1-400 | head -${3:-6}
git -C /repo checkout -- .
